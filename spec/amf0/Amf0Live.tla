------------------------------ MODULE Amf0Live ------------------------------
(* AMF0 values as LIVE OBJECTS: a value reached through a history of API     *)
(* calls is a value.                                                         *)
(*                                                                           *)
(* Amf0.tla builds a tree bottom-up (a container is complete when it is Set  *)
(* into its parent) and marshals it once. The library's values are pointers: *)
(* a container that is already a property of another one can still be        *)
(* changed (child.Set(...)), a *Number / *String / *Boolean can be assigned  *)
(* in place, the same object can be marshalled any number of times, and a    *)
(* decoded tree is a tree of such objects too. This module is the state      *)
(* machine of those histories. Its state is a heap of nodes with identity;   *)
(* the ABSTRACT VALUE of a node is the tree below it NOW (ValOf), and every  *)
(* observation - MarshalBinary / Size() of any node at any time - speaks     *)
(* about that value: marshalling does not change it (the code may cache,     *)
(* the specification does not), a change anywhere below changes it.          *)
(*                                                                           *)
(*   NewC(kind)            x := NewObject() / NewEcmaArray() / NewStrictArray()            *)
(*   SetNew(n, k, s)       n.Set(k, NewNumber(..) / NewString(..) / ...)                   *)
(*   SetNewC(n, k, kind)   n.Set(k, NewObject() / ...)     - an EMPTY container is attached *)
(*                         and filled afterwards: every later Set on it is a change BELOW n *)
(*   SetNode(n, k, m)      n.Set(k, m) for an object m that exists already (detached by a   *)
(*                         replacing Set, never attached, or attached elsewhere: shared)    *)
(*   Assign(n, s)          *n = s on a number / string / boolean node, wherever it hangs    *)
(*   Redecode(n)           the encoding of n's value is unmarshalled into fresh objects,    *)
(*                         which take the place of n's tree (a decoded tree is edited)      *)
(*   MarshalOf(n)          MarshalBinary + Size() of n: the observation                     *)
(*                                                                           *)
(* Every call is followed by one observation step (Marshal of a node the     *)
(* behaviour chooses, or none), so that behaviours contain                   *)
(* marshal -> change below -> marshal at every level.                        *)
(*                                                                           *)
(* Named deviation Dev = "marshal-cache": a container remembers the bytes of *)
(* its last marshal and forgets them when Set is called on ITSELF only.      *)
(*                                                                           *)
(* HOW AN OBJECT CAME TO BE is part of a history too. The value types are    *)
(* exported Go types: besides the New* constructors a caller may write       *)
(* `var o amf0.Object`, `&amf0.EcmaArray{}`, `new(amf0.StrictArray)`,        *)
(* `n := amf0.Number(2); &n`, and may call UnmarshalBinary on such a zero    *)
(* value instead of on what Discovery returns. Every node carries its        *)
(* origin (field o); the abstract value does not depend on it:               *)
(*   "new"   New* constructor          "zero"  declared variable, its address *)
(*   "lit"   &T{} composite literal    "alloc" new(T)                         *)
(*   "conv"  scalar: typed conversion of a Go value, its address              *)
(*   "lib"   made by the library while decoding (Discovery)                   *)
(*   "dzero" a zero value the caller declared and called UnmarshalBinary on   *)
(* Named deviation Dev = "marker-by-constructor": the marker byte of a       *)
(* container is a field only the constructors fill in; a container of any    *)
(* other origin is written with marker 0.                                    *)
EXTENDS Amf0, FiniteSets

CONSTANTS
  MaxNodes,     \* objects ever created in a behaviour
  MaxSteps,     \* calls (observations not counted)
  LoadVals,     \* value trees a behaviour may start from (built or decoded before the history starts)
  COrigins,     \* how a behaviour may make a container: subset of {"new", "zero", "lit", "alloc"}
  SOrigins      \* how a behaviour may make a number / string / boolean: subset of {"new", "conv", "zero"}

VARIABLES
  heap,         \* sequence of nodes; a node's identity is its index
  lpc,          \* "call": a call is next; "obs": the observation after a call is next
  out,          \* the last observation: [n, b, sz] - node, bytes MarshalBinary returned, Size()
  cache,        \* deviation "marshal-cache" only: node -> remembered bytes, <<>> = none
  nsteps
lvars == <<heap, lpc, out, cache, nsteps>>

\* ------------------------------------------------------------------- heap
CNode(k, p, o) == [t |-> k, p |-> p, s |-> None, o |-> o]          \* container: kind, pairs <<name, node id>>, origin
SNode(s, o)    == [t |-> "scalar", p |-> <<>>, s |-> s, o |-> o]   \* number, boolean, string, null, undefined
\* null and undefined are unexported types: only their constructors (and the decoder) make them
SOriginOk(s, o) == s.t \in {"num", "bool", "str"} \/ o = "new"
\* origins whose objects no constructor has touched
Unconstructed == {"zero", "lit", "alloc", "dzero"}
Ids         == 1..Len(heap)
IsC(h, n)   == h[n].t # "scalar"
Kids(h, n)  == {h[n].p[i][2] : i \in 1..Len(h[n].p)}

\* the abstract value of node n: the tree below it, now
RECURSIVE ValOf(_, _)
ValOf(h, n) ==
  IF h[n].t = "scalar" THEN h[n].s
  ELSE Mk([t |-> h[n].t, p |-> [i \in 1..Len(h[n].p) |-> <<h[n].p[i][1], ValOf(h, h[n].p[i][2])>>]])

RECURSIVE Below(_, _)
Below(h, n)      == {n} \cup UNION {Below(h, c) : c \in Kids(h, n)}      \* n and everything reachable from it
AncSelf(h, n)    == {a \in 1..Len(h) : n \in Below(h, a)}               \* every node whose value contains n's
IsRoot(h, n)     == \A a \in 1..Len(h) : n \notin Kids(h, a)

\* the nodes of n's tree in preorder (a shared node appears once per path)
RECURSIVE PreIds(_, _), PreKids(_, _)
PreKids(h, p)    == IF p = <<>> THEN <<>> ELSE PreIds(h, Head(p)[2]) \o PreKids(h, Tail(p))
PreIds(h, n)     == <<n>> \o PreKids(h, h[n].p)
TreeShaped(h, n) == Len(PreIds(h, n)) = Cardinality(Below(h, n))
\* no object outside n's tree holds one of its nodes
Private(h, n)    == \A a \in 1..Len(h) : a \notin Below(h, n) => Kids(h, a) \cap Below(h, n) = {}

\* the heap of a value tree: its nodes in preorder, the tree's own node is base + 1
KindOf(t) == IF t = "strictk" THEN "strict" ELSE t
PairsOf(v) == IF v.t = "strict" THEN [i \in 1..Len(v.e) |-> <<IdxKey(i), v.e[i]>>] ELSE v.p
RECURSIVE HeapOf(_, _), HeapKids(_, _)
HeapKids(prs, base) ==
  IF prs = <<>> THEN [nodes |-> <<>>, p |-> <<>>]
  ELSE LET h    == HeapOf(Head(prs)[2], base)
           rest == HeapKids(Tail(prs), base + Len(h))
       IN [nodes |-> h \o rest.nodes, p |-> <<<<Head(prs)[1], base + 1>>>> \o rest.p]
HeapOf(v, base) ==
  IF v.t \in {"obj", "ecma", "strict", "strictk"}
  THEN LET kids == HeapKids(PairsOf(v), base + 1)
       IN <<CNode(KindOf(v.t), kids.p, "new")>> \o kids.nodes
  ELSE <<SNode(v, "new")>>

NoOut   == [n |-> 0, b |-> <<>>, sz |-> 0]
NoCache == [i \in 1..MaxNodes |-> <<>>]
Caching == Dev = "marshal-cache"

\* ----------------------------------------------------------------- calls
CanCall == lpc = "call" /\ nsteps < MaxSteps
Called  == nsteps' = nsteps + 1 /\ lpc' = "obs" /\ out' = NoOut
\* without the keyed layout a strict array has no names: position j is written as IdxKey(j)
LKeyOk(n, k) == (heap[n].t = "strict" /\ ~StrictKeyed) => \E j \in 1..(Len(heap[n].p) + 1) : k = IdxKey(j)
LRoom(n, k)  == Len(heap[n].p) < MaxPairs \/ \E i \in 1..Len(heap[n].p) : heap[n].p[i][1] = k
CanSet(n, k) == n \in Ids /\ IsC(heap, n) /\ LKeyOk(n, k) /\ LRoom(n, k)
\* the deviation forgets the bytes of the container Set is called on - not of the containers above it
Forget(n)    == IF Caching THEN [cache EXCEPT ![n] = <<>>] ELSE cache

NewC(kind, o) ==
  /\ CanCall /\ Len(heap) < MaxNodes
  /\ heap' = Append(heap, CNode(kind, <<>>, o))
  /\ UNCHANGED cache /\ Called

SetNew(n, k, s, o) ==
  /\ CanCall /\ Len(heap) < MaxNodes /\ CanSet(n, k) /\ SOriginOk(s, o)
  /\ heap' = Append([heap EXCEPT ![n].p = SetOp(@, k, Len(heap) + 1)], SNode(s, o))
  /\ cache' = Forget(n) /\ Called

SetNewC(n, k, kind, o) ==
  /\ CanCall /\ Len(heap) < MaxNodes /\ CanSet(n, k)
  /\ heap' = Append([heap EXCEPT ![n].p = SetOp(@, k, Len(heap) + 1)], CNode(kind, <<>>, o))
  /\ cache' = Forget(n) /\ Called

\* m is not n and not above n: values are finite trees
SetNode(n, k, m) ==
  /\ CanCall /\ CanSet(n, k) /\ m \in Ids /\ n \notin Below(heap, m)
  /\ heap' = [heap EXCEPT ![n].p = SetOp(@, k, m)]
  /\ cache' = Forget(n) /\ Called

Assignable(s) == s.t \in {"num", "bool", "str"}
Assign(n, s) ==
  /\ CanCall /\ n \in Ids /\ heap[n].t = "scalar"
  /\ Assignable(s) /\ heap[n].s.t = s.t /\ heap[n].s # s
  /\ heap' = [heap EXCEPT ![n].s = s]
  /\ UNCHANGED cache /\ Called

\* The encoding of n's value is unmarshalled; the decoded objects replace n's tree, node for node (found
\* again by Get(name): names are distinct in a tree made by Set). The abstract value is what it was.
\* Only where the replacement is complete: nothing else holds n or a node below it (the old objects would
\* live on there), and no node occurs twice in the tree (decoding would make two of it).
\* Outside the shadow of the known finding only: a specification strict array with elements is not
\* decoded by a StrictKeyed reader.
CanRedecode(n) ==
  /\ n \in Ids /\ IsC(heap, n) /\ TreeShaped(heap, n) /\ Private(heap, n)
  /\ StrictKeyed \/ ~HasStrict(ValOf(heap, n))
\* into: "discovery" - UnmarshalBinary on what Discovery returned for the first byte (the library made every
\* object); "zero" - UnmarshalBinary on a zero value of n's type the caller declared (the library made the rest)
Intos == {"discovery", "zero"}
DecodedHeap(h, n, into) ==
  [i \in 1..Len(h) |-> IF i \notin Below(h, n) THEN h[i]
                       ELSE [h[i] EXCEPT !.o = IF i = n /\ into = "zero" THEN "dzero" ELSE "lib"]]
Redecode(n, into) ==
  /\ CanCall /\ CanRedecode(n) /\ into \in Intos
  /\ cache' = [i \in 1..MaxNodes |-> IF i \in Below(heap, n) THEN <<>> ELSE cache[i]]
  /\ heap' = DecodedHeap(heap, n, into) /\ Called

\* ---------------------------------------------------------- observations
\* deviation "marker-by-constructor": what is written for node n when the marker is a field of the object
MarkerOf(kind) == CASE kind = "obj" -> 3 [] kind = "ecma" -> 8 [] kind = "strict" -> 10
RECURSIVE EncByOrigin(_, _), EncPairsByOrigin(_, _, _)
EncPairsByOrigin(h, p, named) ==
  IF p = <<>> THEN <<>>
  ELSE (IF named THEN Utf8(Head(p)[1]) ELSE <<>>) \o EncByOrigin(h, Head(p)[2]) \o EncPairsByOrigin(h, Tail(p), named)
EncByOrigin(h, n) ==
  IF h[n].t = "scalar" THEN Enc(h[n].s)
  ELSE LET m == IF h[n].o \in Unconstructed THEN 0 ELSE MarkerOf(h[n].t)
       IN CASE h[n].t = "obj"    -> <<U8(m)>> \o EncPairsByOrigin(h, h[n].p, TRUE) \o ObjEnd
            [] h[n].t = "ecma"   -> <<U8(m), U32F(0, 0)>> \o EncPairsByOrigin(h, h[n].p, TRUE) \o ObjEnd
            [] h[n].t = "strict" -> <<U8(m), U32(Len(h[n].p))>> \o EncPairsByOrigin(h, h[n].p, StrictKeyed)

MarshalOf(n) ==
  /\ lpc = "obs" /\ n \in Ids
  /\ LET v == ValOf(heap, n)
         b == IF Caching /\ IsC(heap, n) /\ cache[n] # <<>> THEN cache[n]
              ELSE IF Dev = "marker-by-constructor" THEN Bytes(EncByOrigin(heap, n))
              ELSE Bytes(Written(v))
     IN /\ out' = [n |-> n, b |-> b, sz |-> Size(v)]
        /\ cache' = IF Caching /\ IsC(heap, n) THEN [cache EXCEPT ![n] = b] ELSE cache
  /\ lpc' = "call" /\ UNCHANGED <<heap, nsteps>>

NoObs == lpc = "obs" /\ lpc' = "call" /\ UNCHANGED <<heap, out, cache, nsteps>>

\* ------------------------------------------------------------------ spec
Frozen == pc = "live" /\ stack = <<>> /\ ncalls = 0 /\ val = None /\ Clean
LiveInit ==
  /\ Frozen /\ out = NoOut /\ cache = NoCache /\ nsteps = 0
  /\ \/ heap = <<>> /\ lpc = "call"
     \* a start tree built with the constructors, or with one container of another origin
     \/ \E v \in LoadVals : heap = HeapOf(v, 0) /\ lpc = "obs"
     \/ \E v \in LoadVals : \E z \in 1..Len(HeapOf(v, 0)), o \in COrigins \ {"new"} :
          /\ IsC(HeapOf(v, 0), z) /\ heap = [HeapOf(v, 0) EXCEPT ![z].o = o] /\ lpc = "obs"

LiveCall ==
  \/ \E kind \in Kinds, o \in COrigins : NewC(kind, o)
  \/ \E n \in Ids, k \in Keys : \/ \E s \in Scalars, o \in SOrigins : SetNew(n, k, s, o)
                                \/ \E kind \in Kinds, o \in COrigins : SetNewC(n, k, kind, o)
                                \/ \E m \in Ids : SetNode(n, k, m)
  \/ \E n \in Ids, s \in Scalars : Assign(n, s)
  \/ \E n \in Ids, into \in Intos : Redecode(n, into)
LiveObs  == NoObs \/ \E n \in Ids : MarshalOf(n)
LiveNext == (LiveCall \/ LiveObs) /\ UNCHANGED vars
LiveSpec == LiveInit /\ [][LiveNext]_<<vars, lvars>>

\* ------------------------------------------------------------ properties
Seen == lpc = "call" /\ out.n # 0
\* marshalling yields exactly Size() bytes - Size() of the value the node has now (C05)
LiveSize    == Seen => Len(out.b) = out.sz /\ out.sz = Size(ValOf(heap, out.n))
\* the independent decoder maps the bytes to the value the node has now (C06)
LiveDecodes == Seen => DecAt(out.b, 1, StrictKeyed) = Ok(Conc(ValOf(heap, out.n)), Size(ValOf(heap, out.n)))
\* the machine itself: names are distinct in every container (Set replaces), positions of a specification
\* strict array are 1..N in order, ids are in range, at most MaxPairs pairs
HeapOk ==
  \A n \in Ids :
    /\ Len(heap[n].p) <= MaxPairs
    /\ \A i, j \in 1..Len(heap[n].p) : i < j => heap[n].p[i][1] # heap[n].p[j][1]
    /\ \A i \in 1..Len(heap[n].p) : heap[n].p[i][2] \in Ids /\ heap[n].p[i][2] # n
    /\ (heap[n].t = "strict" /\ ~StrictKeyed) => \A i \in 1..Len(heap[n].p) : heap[n].p[i][1] = IdxKey(i)
    /\ heap[n].t = "scalar" => SOriginOk(heap[n].s, heap[n].o) \/ heap[n].o = "lib"
=============================================================================
