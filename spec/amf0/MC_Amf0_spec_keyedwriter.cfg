SPECIFICATION Spec
CONSTANTS
  StrictKeyed = FALSE
  Dev = "keyed-writer"
  Scalars <- McScalars
  Keys <- McKeys
  Kinds = {"obj", "ecma", "strict"}
  MaxDepth = 2
  MaxPairs = 2
  MaxCalls = 4
  RawVals <- McRaw
INVARIANTS RoundTrip
CHECK_DEADLOCK FALSE
