INIT LiveInit
NEXT LiveNext
CONSTANTS
  StrictKeyed = FALSE
  Dev = "none"
  Scalars <- LiveScalars
  Keys <- LiveKeys
  Kinds = {"obj", "ecma", "strict"}
  MaxDepth = 0
  MaxPairs = 2
  MaxCalls = 0
  RawVals = {}
  MaxNodes = 5
  MaxSteps = 1
  LoadVals <- LiveChainsQ
  COrigins = {"new", "zero"}
  SOrigins = {"new"}
INVARIANTS LiveSize LiveDecodes HeapOk
CHECK_DEADLOCK FALSE
