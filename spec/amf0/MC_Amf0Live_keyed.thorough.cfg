INIT LiveInit
NEXT LiveNext
CONSTANTS
  StrictKeyed = TRUE
  Dev = "none"
  Scalars <- LiveScalars
  Keys <- LiveKeys
  Kinds = {"obj", "ecma", "strict"}
  MaxDepth = 0
  MaxPairs = 2
  MaxCalls = 0
  RawVals = {}
  MaxNodes = 5
  MaxSteps = 2
  LoadVals <- LiveChains
  COrigins = {"new"}
  SOrigins = {"new"}
INVARIANTS LiveSize LiveDecodes HeapOk
CHECK_DEADLOCK FALSE
