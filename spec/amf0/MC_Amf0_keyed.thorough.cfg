SPECIFICATION Spec
CONSTANTS
  StrictKeyed = TRUE
  Dev = "none"
  Scalars <- McScalars
  Keys <- McKeys
  Kinds = {"obj", "ecma", "strict"}
  MaxDepth = 2
  MaxPairs = 2
  MaxCalls = 5
  RawVals <- McRaw
INVARIANTS SizeOk RoundTrip Consumed Aligned Canonical
CHECK_DEADLOCK FALSE
