---------------------------- MODULE Gen_Amf0Live ----------------------------
(* Case generation from the live-object machine of Amf0Live.tla, for C05     *)
(* (StrictKeyed = TRUE) and C06 (StrictKeyed = FALSE). A case is a HISTORY:  *)
(* the calls of one behaviour with, after every call, the observation the    *)
(* behaviour chose - the node to marshal and the specification's encoding    *)
(* and size of the value that node has at that moment.                       *)
(*                                                                           *)
(* Directed mode (INIT DirInit / NEXT DirNext, breadth-first, exhaustive):   *)
(* from every start tree (three levels of containers, every combination of   *)
(* kinds; built through the API or decoded) every history                    *)
(*   marshal a -> one call on node x -> marshal b                            *)
(* with a and b ranging over x and every node above x. One case per history. *)
(* Origin mode (INIT OrigInit / NEXT OrigNext, exhaustive): how the objects  *)
(* came to be - one container of every start tree made as a zero value, a    *)
(* composite literal, by new(T), or decoded into a declared zero value.      *)
(* Walk mode (INIT WalkInit / NEXT WalkNext, -simulate): random histories    *)
(* of MaxSteps calls from the empty heap, objects detached, moved, shared,   *)
(* re-decoded; each call followed by the marshal of a random node or none.   *)
EXTENDS Amf0Live, TLC, Json

VARIABLES lhist
gvars == <<vars, lvars, lhist>>

One  == Num(<<63, 240, 0, 0, 0, 0, 0, 0>>)
NaNp == Num(<<127, 240, 0, 0, 0, 0, 0, 1>>)
KE == Fill(0, 0)
KA == Fill(1, 1)     \* = IdxKey(1)
KB == Fill(1, 2)     \* = IdxKey(2)
K3 == Fill(1, 3)     \* = IdxKey(3)

\* ------------------------------------------------------------ step records
MarshalRec(n) ==
  LET v == ValOf(heap, n)
      base == [op |-> "marshal", n |-> n, enc |-> Enc(v), size |-> Size(v)]
  IN IF ~StrictKeyed /\ HasStrict(v) THEN base @@ [has_strict |-> TRUE, enc_keyed |-> Enc(Keyed(v))] ELSE base
\* the tree of n with the identities of its nodes in preorder: what the decoded objects are bound to
TreeRec(op, n, how) ==
  LET v == ValOf(heap, n)
  IN [op |-> op, n |-> n, how |-> how, v |-> v, ids |-> PreIds(heap, n), enc |-> Enc(v), size |-> Size(v)]

Log(rec) == lhist' = Append(lhist, rec)
\* o: how the new object is made (origin)
GNewC(kind, o)          == NewC(kind, o) /\ Log([op |-> "newc", kind |-> kind, id |-> Len(heap) + 1, o |-> o])
GSetNew(n, k, s, o)     == SetNew(n, k, s, o) /\ Log([op |-> "setnew", n |-> n, key |-> k, val |-> s, id |-> Len(heap) + 1, o |-> o])
GSetNewC(n, k, kind, o) == SetNewC(n, k, kind, o) /\ Log([op |-> "setnewc", n |-> n, key |-> k, kind |-> kind, id |-> Len(heap) + 1, o |-> o])
GSetNode(n, k, m)    == SetNode(n, k, m) /\ Log([op |-> "setnode", n |-> n, key |-> k, m |-> m])
GAssign(n, s)        == Assign(n, s) /\ Log([op |-> "assign", n |-> n, val |-> s])
GRedecode(n, into)   == Redecode(n, into) /\ Log(TreeRec("redecode", n, "decoded") @@ [into |-> into])
GMarshal(n)          == MarshalOf(n) /\ Log(MarshalRec(n))
GNoObs               == NoObs /\ UNCHANGED lhist

Case == [kind |-> "live", fam |-> "live", steps |-> lhist]

\* ----------------------------------------------------------- directed mode
CONSTANTS DirKinds, DirKeys, DirScalars   \* start-tree kinds; names and scalars of the one call

Str5 == Str(Fill(5, 23))
Lvl(kind, x, y) == Mk([t |-> kind, p |-> <<<<KA, x>>, <<KB, y>>>>])
\* root {a: child {a: grandchild {a: 1.0, b: "....."}, b: null}, b: ".."}
DirTrees == {Lvl(a, Lvl(b, Lvl(c, One, Str5), Null), Str(Fill(2, 9))) : a, b, c \in DirKinds}
DirKeysQ    == {KA, K3}                                   \* a name that exists (Set replaces), one that does not (Set appends)
DirKeysT    == {KA, KB, K3, KE, Fill(300, 4)}
DirScalarsQ == {NaNp, Str(Fill(4, 26))}
DirScalarsT == {NaNp, Str(Fill(4, 26)), Str(Fill(300, 24)), Str(Fill(0, 0)), Bool(TRUE), Null}
Hows(v)  == {"api"} \cup (IF StrictKeyed \/ ~HasStrict(v) THEN {"decoded"} ELSE {})

DirInit ==
  /\ Frozen /\ out = NoOut /\ cache = NoCache /\ nsteps = 0 /\ lpc = "obs"
  /\ \E v \in DirTrees : /\ heap = HeapOf(v, 0)
                         /\ \E how \in Hows(v) : lhist = <<[op |-> "load", n |-> 1, how |-> how, v |-> v,
                                                          ids |-> PreIds(HeapOf(v, 0), 1), enc |-> Enc(v), size |-> Size(v)]>>

\* the observation before the call looked at x or above it
Watched(x) == lpc = "call" /\ out.n # 0 /\ x \in Below(heap, out.n)
\* the node the last call was made on
Touched == LET r == lhist[Len(lhist)] IN IF r.op = "newc" THEN r.id ELSE r.n
DirNext ==
  /\ UNCHANGED vars
  /\ \/ \E n \in Ids, k \in DirKeys : Watched(n) /\ \/ \E s \in DirScalars : GSetNew(n, k, s, "new")
                                                    \/ \E kind \in Kinds : GSetNewC(n, k, kind, "new")
     \/ \E n \in Ids, s \in DirScalars : Watched(n) /\ GAssign(n, s)
     \/ \E n \in Ids : Watched(n) /\ GRedecode(n, "discovery")
     \/ \E n \in Ids : lpc = "obs" /\ nsteps = 0 /\ GMarshal(n)
     \/ \E n \in Ids : lpc = "obs" /\ nsteps > 0 /\ Touched \in Below(heap, n) /\ GMarshal(n)
DirDone == lpc = "call" /\ nsteps = MaxSteps
DirEmit == DirDone => PrintT(<<"CASE", ToJson(Case)>>)

\* ------------------------------------------------------------- origin mode
\* How the objects came to be (INIT OrigInit / NEXT OrigNext, breadth-first, exhaustive): every start tree with ONE
\* container z - root, child or grandchild - made as a zero value / composite literal / new(T) and filled with Set
\* (its scalars made the corresponding way), or decoded into a zero value the caller declared; then
\*   marshal a -> z.Set(new name, scalar of every origin | empty container of z's origin) -> marshal a
\* with a = z and every node above z.
SOf(o) == CASE o = "zero" -> "zero" [] o = "lit" -> "conv" [] OTHER -> "new"
OrigHeap(v, z, o) ==
  LET h == HeapOf(v, 0)
  IN [i \in 1..Len(h) |-> IF i = z THEN [h[i] EXCEPT !.o = o]
                           ELSE IF i \in Kids(h, z) /\ h[i].t = "scalar" /\ Assignable(h[i].s) THEN [h[i] EXCEPT !.o = SOf(o)]
                           ELSE h[i]]
OrigLoad(v, how, z) ==
  [op |-> "load", n |-> 1, how |-> how, v |-> v, ids |-> PreIds(heap, 1), enc |-> Enc(v), size |-> Size(v),
   orig |-> [i \in 1..Len(heap) |-> heap[i].o], z |-> z]
OrigInit ==
  /\ Frozen /\ out = NoOut /\ cache = NoCache /\ nsteps = 0 /\ lpc = "obs"
  /\ \E v \in DirTrees :
       \/ \E z \in 1..Len(HeapOf(v, 0)), o \in COrigins \ {"new"} :
            /\ IsC(HeapOf(v, 0), z) /\ heap = OrigHeap(v, z, o) /\ lhist = <<OrigLoad(v, "api", z)>>
       \/ /\ StrictKeyed \/ ~HasStrict(v)
          /\ heap = DecodedHeap(HeapOf(v, 0), 1, "zero") /\ lhist = <<OrigLoad(v, "decoded-zero", 1)>>
OrigZ == lhist[1].z
OrigNext ==
  /\ UNCHANGED vars
  /\ \/ \E n \in Ids : lpc = "obs" /\ nsteps = 0 /\ OrigZ \in Below(heap, n) /\ GMarshal(n)
     \/ \E so \in SOrigins : Watched(OrigZ) /\ GSetNew(OrigZ, K3, NaNp, so)
     \/ \E kind \in Kinds : Watched(OrigZ) /\ GSetNewC(OrigZ, K3, kind, IF heap[OrigZ].o = "dzero" THEN "zero" ELSE heap[OrigZ].o)
     \/ lpc = "obs" /\ nsteps > 0 /\ GMarshal(lhist[2].n)
OrigEmit == DirDone => PrintT(<<"CASE", ToJson(Case)>>)

\* --------------------------------------------------------------- walk mode
WalkScalarSeq == <<One, Null, Str5, NaNp, Bool(TRUE), Undef, Str(Fill(0, 0)), Str(Fill(300, 24)),
                   Bool(FALSE), Num(<<255, 255, 255, 255, 255, 255, 255, 255>>), Str(Fill(1, 25))>>
WalkScalars == {WalkScalarSeq[i] : i \in 1..Len(WalkScalarSeq)}
WalkKeySeq  == <<KE, KA, KB, K3, Fill(300, 4)>>
WalkKeys    == {WalkKeySeq[i] : i \in 1..Len(WalkKeySeq)}
KindSeq     == <<"obj", "strict", "ecma">>
Pick(seq, i) == seq[(i % Len(seq)) + 1]
COriginSeq  == <<"new", "zero", "lit", "new", "alloc">>
SOriginSeq  == <<"new", "conv", "zero">>
\* values of the node's own type, other than the one it has
Others(s) == SelectSeq(WalkScalarSeq, LAMBDA x : x.t = s.t /\ x # s)

WalkInit ==
  /\ Frozen /\ out = NoOut /\ cache = NoCache /\ nsteps = 0 /\ lpc = "call"
  /\ heap = <<>> /\ lhist = <<>>

\* TLC's simulator picks uniformly among the successor states: what would only multiply them (the scalar,
\* the kind and the origin of a new object, the name under which an existing object is attached) is a function of the
\* step number, so that the kinds of call stay comparably likely and all values occur
WalkNext ==
  /\ UNCHANGED vars
  /\ \/ GNewC(Pick(KindSeq, nsteps \div 3), Pick(COriginSeq, nsteps))
     \/ \E n \in Ids, k \in Keys : \/ LET s == Pick(WalkScalarSeq, nsteps)
                                      IN GSetNew(n, k, s, IF Assignable(s) THEN Pick(SOriginSeq, nsteps \div 2) ELSE "new")
                                   \/ GSetNewC(n, k, Pick(KindSeq, nsteps), Pick(COriginSeq, nsteps \div 2))
     \/ \E n \in Ids, m \in Ids : (IsC(heap, m) \/ IsRoot(heap, m)) /\ GSetNode(n, Pick(WalkKeySeq, nsteps + m), m)
     \/ \E n \in Ids, j \in 0..1 : /\ heap[n].t = "scalar" /\ Assignable(heap[n].s)
                                   /\ GAssign(n, Pick(Others(heap[n].s), nsteps + j))
     \/ \E n \in Ids : GRedecode(n, Pick(<<"discovery", "zero">>, nsteps))
     \* the observation: the node the call was made on or one above it (whose value the call changed), or one
     \* other node (whose value it did not change), or none
     \/ \E n \in Ids : lpc = "obs" /\ (Touched \in Below(heap, n) \/ n = (nsteps % Len(heap)) + 1) /\ GMarshal(n)
     \/ GNoObs
     \* the simulator evaluates invariants on every successor, chosen or not: emit behind a step that
     \* exists only at the end of the walk
     \/ lpc = "call" /\ nsteps = MaxSteps /\ lpc' = "emit" /\ UNCHANGED <<heap, out, cache, nsteps, lhist>>
WalkEmit == lpc = "emit" => PrintT(<<"CASE", ToJson(Case)>>)
=============================================================================
