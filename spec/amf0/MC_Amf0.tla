------------------------------ MODULE MC_Amf0 ------------------------------
(* Exhaustive configuration: every New/Set call sequence within the bounds,  *)
(* every raw pair list (repeated names, empty names, ECMA counts) over a     *)
(* small alphabet, and the marker table for all 256 marker bytes.            *)
EXTENDS Amf0

McScalars == {Num(<<127, 240, 0, 0, 0, 0, 0, 1>>), Bool(TRUE), Str(Fill(2, 3)), Null}
McKeys    == {Fill(0, 0), Fill(1, 1), Fill(1, 2), Fill(2, 5)}

\* raw pair lists: up to 3 pairs, names may repeat, the empty name is a name
RK == {Fill(0, 0), Fill(1, 1), Fill(1, 2)}
RV == {Null, Str(Fill(1, 4)), Num(<<63, 240, 0, 0, 0, 0, 0, 0>>)}
RP == {<<k, v>> : k \in RK, v \in RV}
Lists3(S) == {<<>>} \cup {<<a>> : a \in S} \cup {<<a, b>> : a, b \in S} \cup {<<a, b, c>> : a, b, c \in S}
Lists2(S) == {<<>>} \cup {<<a>> : a \in S} \cup {<<a, b>> : a, b \in S}
Counts == {<<0, 0>>, <<0, 2>>, <<65535, 65535>>}
Level1(LS) == {Obj(l) : l \in LS} \cup {Ecma(c, l) : c \in Counts, l \in LS} \cup {StrictOf(l) : l \in LS}
RawL1  == Level1(Lists3(RP))
SmallP == {<<k, v>> : k \in {Fill(0, 0), Fill(1, 1)}, v \in {Null, Bool(FALSE)}}
RawL1s == Level1(Lists2(SmallP))
RawL2  == UNION {{Obj(<<<<Fill(1, 1), x>>, <<Fill(1, 1), Null>>>>),
                  Ecma(<<0, 1>>, <<<<Fill(0, 0), x>>, <<Fill(0, 0), x>>>>),
                  StrictOf(<<<<Fill(1, 1), x>>, <<Fill(1, 2), Undef>>>>)} : x \in RawL1s}
McRaw == RawL1 \cup RawL2

\* the marker table is a statement about the specification's decoder, not about a state
MarkersOk == pc # "nowhere" => MarkerTableOk
=============================================================================
