INIT GenInit
NEXT GenNext
CONSTANTS
  StrictKeyed = FALSE
  Dev = "none"
  Families = {"rawbool", "utf8", "maxlen", "scalar", "single", "shape", "long", "nest", "wide", "meta", "marker"}
  TextLens = {0, 1, 2, 300}
  Scalars = {}
  Keys = {}
  Kinds = {}
  MaxDepth = 0
  MaxPairs = 0
  MaxCalls = 0
  RawVals = {}
INVARIANT Emit
CHECK_DEADLOCK FALSE
