------------------------------ MODULE ErrChain ------------------------------
(* The errors package: constructors nested over a root error.                  *)
(*   root        the transport's own error value (or nil)                      *)
(*   WithStack   adds a stack, no message                                      *)
(*   WithMessage adds a message                                                *)
(*   Wrap/Wrapf  add a message and a stack                                     *)
(* Cause(e) is the root, identically, THROUGH ANY NUMBER OF LAYERS; the text   *)
(* is the messages outer to inner joined by ": " and ending in the root's      *)
(* text; every constructor maps nil to nil.  New/Errorf create a fresh root.   *)
(* A nesting is a sequence of RUNS: one constructor applied n times in a row   *)
(* (an error that bubbles up through a recursive descent or a retry loop that  *)
(* annotates at every level), so that chains of depth 1000 stay small states.  *)
EXTENDS Naturals, Sequences

CONSTANTS MaxDepth,    \* number of runs
          Msgs,        \* message tokens
          Reps,        \* repeat counts of a run (depth classes)
          MaxTotal,    \* bound of the total depth
          CauseLimit   \* 0 (the property: Cause unwinds every layer). k > 0: named deviation "cause-depth-limited":
                       \* the unwinding gives up after k layers and returns the layer it stands on

VARIABLES root,    \* "nil" | "sentinel" (a foreign error value) | "new" | "errorf" (created by the package)
          layers   \* runs applied so far, innermost first: [k |-> "stack" | "msg" | "wrap" | "wrapf", m |-> message, n |-> repeat]
vars == <<root, layers>>

Run(k, m, n) == [k |-> k, m |-> m, n |-> n]
RECURSIVE DepthOf(_)
DepthOf(ls) == IF ls = <<>> THEN 0 ELSE ls[Len(ls)].n + DepthOf(SubSeq(ls, 1, Len(ls) - 1))
Depth == DepthOf(layers)

Init == root \in {"nil", "sentinel", "new", "errorf"} /\ layers = <<>>
Apply(r) == Len(layers) < MaxDepth /\ Depth + r.n <= MaxTotal /\ layers' = Append(layers, r) /\ UNCHANGED root
Next == \E n \in Reps : \/ Apply(Run("stack", "", n))
                        \/ \E m \in Msgs : \E k \in {"msg", "wrap", "wrapf"} : Apply(Run(k, m, n))
Spec == Init /\ [][Next]_vars

IsNil == root = "nil"
\* messages outer to inner (layers are innermost first), as runs [m, n]
RECURSIVE MsgsOf(_)
MsgsOf(ls) == IF ls = <<>> THEN <<>>
              ELSE LET l == ls[Len(ls)]
                       rest == MsgsOf(SubSeq(ls, 1, Len(ls) - 1))
                   IN IF l.k = "stack" THEN rest ELSE <<[m |-> l.m, n |-> l.n]>> \o rest
Text == MsgsOf(layers)          \* followed by the root's own text
\* what Cause returns: the root, whatever the nesting ("layer": a wrapper of the package itself)
Cause == IF IsNil THEN "nil"
         ELSE IF CauseLimit > 0 /\ Depth > CauseLimit THEN "layer" ELSE root

\* properties of the model itself
NilStaysNil == IsNil => Cause = "nil"
CauseIsRoot == Cause = root
RECURSIVE TextDepth(_)
TextDepth(t) == IF t = <<>> THEN 0 ELSE Head(t).n + TextDepth(Tail(t))
TextLen == TextDepth(Text) <= Depth
=============================================================================
