------------------------------ MODULE ErrChain ------------------------------
(* The errors package: constructors nested over a root error.                  *)
(*   root        the transport's own error value (or nil)                      *)
(*   WithStack   adds a stack, no message                                      *)
(*   WithMessage adds a message                                                *)
(*   Wrap/Wrapf  add a message and a stack                                     *)
(* Cause(e) is the root, identically; the text is the messages outer to inner  *)
(* joined by ": " and ending in the root's text; every constructor maps nil    *)
(* to nil.  New/Errorf create a fresh root.                                    *)
EXTENDS Naturals, Sequences

CONSTANTS MaxDepth, Msgs   \* Msgs: message tokens

VARIABLES root,    \* "nil" | "sentinel" (a foreign error value) | "new" | "errorf" (created by the package)
          layers   \* constructors applied so far, innermost first: <<"stack">> or <<"msg", m>> or <<"wrap", m>> or <<"wrapf", m>>
vars == <<root, layers>>

Init == root \in {"nil", "sentinel", "new", "errorf"} /\ layers = <<>>
Apply(l) == Len(layers) < MaxDepth /\ layers' = Append(layers, l) /\ UNCHANGED root
Next == \/ Apply(<<"stack">>)
        \/ \E m \in Msgs : Apply(<<"msg", m>>) \/ Apply(<<"wrap", m>>) \/ Apply(<<"wrapf", m>>)
Spec == Init /\ [][Next]_vars

IsNil == root = "nil"
\* messages outer to inner (layers are innermost first)
RECURSIVE MsgsOf(_)
MsgsOf(ls) == IF ls = <<>> THEN <<>>
              ELSE LET l == ls[Len(ls)]
                       rest == MsgsOf(SubSeq(ls, 1, Len(ls) - 1))
                   IN IF l[1] = "stack" THEN rest ELSE <<l[2]>> \o rest
Text == MsgsOf(layers)          \* followed by the root's own text
Cause == root                   \* identity of the root, whatever the nesting

\* properties of the model itself
NilStaysNil == IsNil => Cause = "nil"
TextLen == Len(Text) <= Len(layers)
=============================================================================
