SPECIFICATION Spec
CONSTANTS
  MaxDepth = 3
  Msgs = {"a", "b"}
  Reps = {1, 33, 100, 1000}
  MaxTotal = 2100
  CauseLimit = 0
INVARIANTS NilStaysNil CauseIsRoot TextLen Emit
CHECK_DEADLOCK FALSE
