SPECIFICATION Spec
CONSTANTS
  MaxDepth = 2
  Msgs = {"a", "b"}
  Reps = {1, 33, 1000}
  MaxTotal = 1100
  CauseLimit = 0
INVARIANTS NilStaysNil CauseIsRoot TextLen Emit
CHECK_DEADLOCK FALSE
