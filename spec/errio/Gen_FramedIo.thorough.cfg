INIT Init
NEXT Next
CONSTANTS Thorough = TRUE
INVARIANT Emit
CHECK_DEADLOCK FALSE
