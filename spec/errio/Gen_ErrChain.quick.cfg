SPECIFICATION Spec
CONSTANTS
  MaxDepth = 4
  Msgs = {"a", "b"}
INVARIANTS NilStaysNil TextLen Emit
CHECK_DEADLOCK FALSE
