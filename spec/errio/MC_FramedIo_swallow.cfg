SPECIFICATION Spec
CONSTANTS
  Sizes <- McSizes
  PartialOk = FALSE
  Swallow = "at-boundary"
INVARIANTS ReturnedOk ErrorSurfaces ErrorClass
CHECK_DEADLOCK FALSE
