SPECIFICATION Spec
CONSTANTS
  MaxDepth = 4
  Msgs = {"a", "b"}
INVARIANTS NilStaysNil TextLen
CHECK_DEADLOCK FALSE
