SPECIFICATION Spec
CONSTANTS
  MaxDepth = 4
  Msgs = {"a", "b"}
  Reps = {1}
  MaxTotal = 4
  CauseLimit = 0
INVARIANTS NilStaysNil CauseIsRoot TextLen
CHECK_DEADLOCK FALSE
