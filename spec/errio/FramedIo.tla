------------------------------ MODULE FramedIo ------------------------------
(* A framed byte stream over a transport that may end or fail at any byte      *)
(* (C08).  Items (RTMP messages; FLV header and tags) occupy consecutive byte  *)
(* ranges; End[i] is the offset just after item i.  The writer hands items to  *)
(* the transport; the transport shows the reader a prefix: everything, or the  *)
(* first `cut` bytes followed by end-of-stream, or the bytes before an         *)
(* injected read error.  The reader returns items one call at a time.          *)
EXTENDS Integers, Sequences

CONSTANTS Sizes,        \* sequence of item sizes in bytes (>= 1)
          PartialOk     \* FALSE (the property). TRUE: named deviation "a partially transferred item is returned"

N == Len(Sizes)
RECURSIVE EndOf(_)
EndOf(i) == IF i = 0 THEN 0 ELSE EndOf(i - 1) + Sizes[i]
Total == EndOf(N)

VARIABLES plan,      \* [kind |-> "none"|"cut"|"readfault", at |-> byte offset]
          returned,  \* indices of items returned with nil error, in order
          outcome    \* "reading" | "eof" | "injected" : how the reader's last call ended
vars == <<plan, returned, outcome>>

Init == /\ plan \in [kind : {"none", "cut", "readfault"}, at : 0..Total]
        /\ (plan.kind = "none" => plan.at = Total)
        /\ returned = <<>> /\ outcome = "reading"

Visible == plan.at     \* bytes the reader can obtain before the stream ends / fails

\* one reader call: the next item if it was completely transferred, else the stream's end or failure
ReadItem ==
  /\ outcome = "reading"
  /\ LET i == Len(returned) + 1 IN
     IF i <= N /\ (EndOf(i) <= Visible \/ (PartialOk /\ EndOf(i - 1) < Visible))
     THEN returned' = Append(returned, i) /\ UNCHANGED outcome
     ELSE /\ outcome' = IF plan.kind = "readfault" THEN "injected" ELSE "eof"
          /\ UNCHANGED returned
  /\ UNCHANGED plan
Next == ReadItem
Spec == Init /\ [][Next]_vars

\* exactly the completely transferred items, in order, nothing fabricated or duplicated
Complete == {i \in 1..N : EndOf(i) <= Visible}
ReturnedOk == /\ \A k \in 1..Len(returned) : returned[k] = k /\ returned[k] \in Complete
              /\ (outcome # "reading" => Len(returned) = (IF Complete = {} THEN 0 ELSE
                                                          CHOOSE i \in Complete : \A j \in Complete : j <= i))
\* an error ends the stream of results and its class is the transport's
ErrorClass == outcome \in {"reading", "eof", "injected"} /\ (outcome = "injected" => plan.kind = "readfault")
=============================================================================
