------------------------------ MODULE FramedIo ------------------------------
(* A framed byte stream over a transport that may end or fail at any byte      *)
(* (C08).  Items (RTMP messages; FLV header and tags; handshake packets)       *)
(* occupy consecutive byte ranges; EndOf(i) is the offset just after item i.   *)
(* The library is called once per item (ReadMessage / ReadTag / WriteMessage / *)
(* WriteTag ...); during a call it issues transport calls, each of which moves *)
(* some bytes.  The reader may fetch ahead of the item it was asked for (a     *)
(* buffered reader); the writer hands over at most the item it was given and   *)
(* has handed over all of it when its call returns.                            *)
(* The transport: delivers everything and then ends; or ends after `at` bytes  *)
(* (cut); or FAILS ONCE: the first transport call issued once `at` bytes have  *)
(* moved returns the transport's own error and moves nothing, later calls work *)
(* again (a timeout, an interrupted call).  Every call index of every          *)
(* segmentation is such an `at`.                                               *)
EXTENDS Integers, Sequences, FiniteSets

CONSTANTS Sizes,        \* sequence of item sizes in bytes (>= 1)
          PartialOk,    \* FALSE (the property). TRUE: named deviation "a partially transferred item is returned"
          Swallow       \* "never" (the property). "at-boundary": named deviation "fault-swallowed-at-boundary": a transport
                        \* error that is not the end of the stream is dropped when it hits the first transport call of an
                        \* item (a probe for the clean end between two items that forgets what else it was told)

N == Len(Sizes)
RECURSIVE EndOf(_)
EndOf(i) == IF i = 0 THEN 0 ELSE EndOf(i - 1) + Sizes[i]
Total == EndOf(N)

VARIABLES plan,      \* [kind |-> "none"|"cut"|"readfault"|"writefault", at |-> byte offset]
          returned,  \* indices of the items whose library call returned a nil error, in order
          outcome,   \* "open" | "eof" | "injected" : how the last library call ended
          moved,     \* bytes the transport delivered to the reader / accepted from the writer so far
          fired,     \* the transport has failed (once)
          incall     \* 0: between two library calls; i > 0: the call for item i is in progress
vars == <<plan, returned, outcome, moved, fired, incall>>

Writing == plan.kind = "writefault"
Visible == IF plan.kind = "cut" THEN plan.at ELSE Total    \* bytes the reader can obtain before the stream ends

Init == /\ plan \in [kind : {"none", "cut", "readfault", "writefault"}, at : 0..Total]
        /\ (plan.kind = "none" => plan.at = Total)
        /\ returned = <<>> /\ outcome = "open" /\ moved = 0 /\ fired = FALSE /\ incall = 0

\* the caller asks for the next item (a reader goes on until an error, also past the last item)
Call == /\ incall = 0 /\ outcome = "open"
        /\ (Writing => Len(returned) < N)
        /\ incall' = Len(returned) + 1
        /\ UNCHANGED <<plan, returned, outcome, moved, fired>>

Need(i) == IF i <= N THEN EndOf(i) ELSE Total + 1
Armed == plan.kind \in {"readfault", "writefault"} /\ ~fired /\ moved >= plan.at

\* one transport call issued by the library call in progress
TransportCall ==
  /\ incall > 0 /\ moved < Need(incall)
  /\ IF Armed
     THEN /\ fired' = TRUE
          /\ IF Swallow = "at-boundary" /\ moved = EndOf(incall - 1)
             THEN UNCHANGED <<returned, outcome, moved, incall>>                         \* dropped, the call goes on
             ELSE outcome' = "injected" /\ incall' = 0 /\ UNCHANGED <<returned, moved>>  \* the call in progress reports it
     ELSE IF ~Writing /\ moved = Visible
     THEN /\ IF PartialOk /\ incall <= N /\ moved > EndOf(incall - 1)
             THEN returned' = Append(returned, incall) /\ UNCHANGED outcome
             ELSE outcome' = "eof" /\ UNCHANGED returned
          /\ incall' = 0 /\ UNCHANGED <<moved, fired>>
     ELSE /\ \E n \in (moved + 1)..(IF Writing THEN EndOf(incall) ELSE Visible) : moved' = n
          /\ UNCHANGED <<returned, outcome, fired, incall>>
  /\ UNCHANGED plan

\* the library call returns its item with a nil error
Return == /\ incall > 0 /\ incall <= N /\ moved >= EndOf(incall)
          /\ returned' = Append(returned, incall) /\ incall' = 0
          /\ UNCHANGED <<plan, outcome, moved, fired>>

Next == Call \/ TransportCall \/ Return
Spec == Init /\ [][Next]_vars

\* exactly the completely transferred items, in order, nothing fabricated or duplicated
Complete == {i \in 1..N : EndOf(i) <= moved}
ReturnedOk == /\ \A k \in 1..Len(returned) : returned[k] = k /\ returned[k] \in Complete
              /\ (outcome # "open" => Len(returned) = Cardinality(Complete))
\* a transport failure is never swallowed: the library call during which the transport failed reports it
ErrorSurfaces == (fired /\ incall = 0) => outcome = "injected"
\* an error ends the stream of results and its class is the transport's
ErrorClass == /\ outcome \in {"open", "eof", "injected"}
              /\ (outcome = "injected" => fired)
              /\ (outcome = "eof" => ~Writing /\ moved = Visible)
=============================================================================
