--------------------------- MODULE Gen_FramedIo ---------------------------
(* Sessions and files for the cut / fault enumeration of C08: the item list   *)
(* with the byte size the specification predicts for each item (RTMP: type-0   *)
(* header 12 or 16 bytes, type-3 headers 1 or 5 bytes per further chunk; FLV:  *)
(* 13-byte file header, 11 + n + 4 bytes per tag; handshake 1, 1536, 1536).    *)
(* The replayer enumerates EVERY cut offset 0..Total and every read / write    *)
(* call index of each of them; Complete(n) is FramedIo's.                      *)
(* Plans are FramedIo's transport plans, to be replayed at every position;     *)
(* ReadSegs are the ways the transport cuts the stream into read calls (which  *)
(* decide where FramedIo's `moved` stands when a call is issued): everything   *)
(* available, one byte, seeded random pieces, and pieces that end exactly at   *)
(* the item ends, so that a transport call is the first one of an item.        *)
EXTENDS Integers, Sequences, TLC, Json

CONSTANTS Thorough

\* ---- RTMP
Shape(ty, len, ts) == [type |-> ty, len |-> len, ts |-> ts, scs |-> 0]
Scs(cs)            == [type |-> 1, len |-> 4, ts |-> 0, scs |-> cs]
RtmpShapes == {Shape(8, 1, 0), Shape(9, 128, 16777215), Shape(9, 129, 0), Shape(8, 300, 5), Scs(1), Scs(4096)}
              \cup (IF Thorough THEN {Shape(18, 65536, 0), Shape(9, 4097, 2147483647)} ELSE {})
HdrBytes(ts, first) == IF first THEN (IF ts >= 16777215 THEN 16 ELSE 12) ELSE (IF ts >= 16777215 THEN 5 ELSE 1)
MsgBytes(m, cs) == HdrBytes(m.ts, TRUE) + ((m.len - 1) \div cs) * HdrBytes(m.ts, FALSE) + m.len
RECURSIVE RtmpSizes(_, _)
RtmpSizes(ms, cs) == IF ms = <<>> THEN <<>>
                     ELSE <<MsgBytes(Head(ms), cs)>> \o RtmpSizes(Tail(ms), IF Head(ms).type = 1 THEN Head(ms).scs ELSE cs)
Seqs(S, n) == UNION {[1..k -> S] : k \in 1..n}

\* ---- FLV
Tag(ty, n, ts) == [type |-> ty, n |-> n, ts |-> ts]
FlvTags == {Tag(8, 0, 0), Tag(9, 1, 16777216), Tag(18, 255, 40), Tag(9, 300, 80)}
           \cup (IF Thorough THEN {Tag(9, 65536, 1000)} ELSE {})
FlvSizes(ts) == <<13>> \o [i \in 1..Len(ts) |-> 11 + ts[i].n + 4]

Plans == <<"cut", "readfault", "writefault">>       \* FramedIo!plan.kind; a fault fails ONE transport call, later calls work
ReadSegs == <<"whole", "random", "aligned", "one">>
Case(k, items, sizes) == [kind |-> k, items |-> items, sizes |-> sizes, plans |-> Plans, readsegs |-> ReadSegs]

VARIABLE c
Init == \/ \E ms \in Seqs(RtmpShapes, 3) : c = Case("rtmp", ms, RtmpSizes(ms, 128))
        \/ \E ts \in Seqs(FlvTags, 3) : c = Case("flv", ts, FlvSizes(ts))
        \/ c = Case("handshake", <<>>, <<1, 1536, 1536>>)
Next == UNCHANGED c
Emit == PrintT(<<"CASE", ToJson(c)>>)
=============================================================================
