SPECIFICATION Spec
CONSTANTS
  MaxDepth = 6
  Msgs = {"a", "b"}
  Reps = {1}
  MaxTotal = 6
  CauseLimit = 0
INVARIANTS NilStaysNil CauseIsRoot TextLen Emit
CHECK_DEADLOCK FALSE
