SPECIFICATION Spec
CONSTANTS
  MaxDepth = 6
  Msgs = {"a", "b"}
INVARIANTS NilStaysNil TextLen Emit
CHECK_DEADLOCK FALSE
