SPECIFICATION Spec
CONSTANTS
  Sizes <- McSizes
  PartialOk = TRUE
INVARIANTS ReturnedOk ErrorClass
CHECK_DEADLOCK FALSE
