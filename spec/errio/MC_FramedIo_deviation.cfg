SPECIFICATION Spec
CONSTANTS
  Sizes <- McSizes
  PartialOk = TRUE
  Swallow = "never"
INVARIANTS ReturnedOk ErrorSurfaces ErrorClass
CHECK_DEADLOCK FALSE
