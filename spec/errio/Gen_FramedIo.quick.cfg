INIT Init
NEXT Next
CONSTANTS Thorough = FALSE
INVARIANT Emit
CHECK_DEADLOCK FALSE
