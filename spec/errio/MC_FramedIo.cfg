SPECIFICATION Spec
CONSTANTS
  Sizes <- McSizes
  PartialOk = FALSE
  Swallow = "never"
INVARIANTS ReturnedOk ErrorSurfaces ErrorClass
CHECK_DEADLOCK FALSE
