SPECIFICATION Spec
CONSTANTS
  Sizes <- McSizes
  PartialOk = FALSE
INVARIANTS ReturnedOk ErrorClass
CHECK_DEADLOCK FALSE
