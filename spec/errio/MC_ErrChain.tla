---------------------------- MODULE MC_ErrChain ----------------------------
EXTENDS ErrChain, TLC, Json
Emit == PrintT(<<"CASE", ToJson([root |-> root, layers |-> layers, depth |-> Depth, nil |-> IsNil, text |-> Text])>>)
=============================================================================
