SPECIFICATION Spec
CONSTANTS
  MaxDepth = 2
  Msgs = {"a"}
  Reps = {1, 33}
  MaxTotal = 100
  CauseLimit = 32
INVARIANTS NilStaysNil CauseIsRoot TextLen
CHECK_DEADLOCK FALSE
