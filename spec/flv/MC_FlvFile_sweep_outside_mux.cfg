\* the muxer scratch deviation is invisible on every size outside its window of 4: a matrix of format boundaries cannot see it (this run PASSES)
SPECIFICATION Spec
CONSTANTS
  Deviation = "mux-scratch-trunc"
  FlagSets <- OneFlags
  TagLists <- McSweepOutsideMux
  Segs <- McSegs
INVARIANTS Layout RefDec Prefix Final HeaderOk Framing InputsUntouched NoLoss
CHECK_DEADLOCK TRUE
