------------------------------ MODULE FlvFile ------------------------------
(* FLV version 1 files (Adobe Flash Video File Format Specification 10.1,     *)
(* Annex E.2 "The FLV header", E.3 "The FLV File Body", E.4.1 "FLV Tag"):     *)
(*                                                                            *)
(*   header   'F' 'L' 'V', Version UI8 = 1,                                   *)
(*            TypeFlagsReserved UB[5] = 0, TypeFlagsAudio UB[1],              *)
(*            TypeFlagsReserved UB[1] = 0, TypeFlagsVideo UB[1],              *)
(*            DataOffset UI32 = 9                                             *)
(*   body     PreviousTagSize0 UI32 = 0, (Tag, PreviousTagSize UI32)*         *)
(*   tag      TagType UI8, DataSize UI24, Timestamp UI24 (low 24 bits),       *)
(*            TimestampExtended UI8 (bits 24..31), StreamID UI24 = 0,         *)
(*            DataSize bytes of data                                          *)
(*   PreviousTagSize = 11 + DataSize of the tag before it                     *)
(*                                                                            *)
(* The module is shaped like the library's API (flv.NewMuxer / NewDemuxer):   *)
(* a muxer is called  WriteHeader -> WriteTag* -> Close  and appends bytes to *)
(* the file; a transport hands the bytes written so far to the reading side   *)
(* in segments of any size (Deliver); a demuxer is called  ReadHeader ->      *)
(* (ReadTagHeader -> ReadTag)*  and each call completes as soon as the bytes  *)
(* it needs have been delivered, whatever the segments were. Writer and       *)
(* reader may interleave (a file being read while it is written).             *)
(*                                                                            *)
(* Timestamps are 32 bit, TLC integers are not: a timestamp is the pair of    *)
(* the wire's own limbs <<bits 24..31, bits 0..23>>.                          *)
EXTENDS Naturals, Sequences, LD

CONSTANTS
  FlagSets,    \* set of [video : BOOLEAN, audio : BOOLEAN]
  TagLists,    \* set of sequences of tags [t : 0..255, ts : <<hi8, lo24>>, n : size, id : payload id]
  Segs,        \* segment sizes the transport may deliver (besides "everything written so far")
  Deviation    \* "none", or the name of a realistic wrong behaviour (non-vacuity runs):
               \*   "pts-body-only"  the muxer writes PreviousTagSize = DataSize (without the 11 header bytes)
               \*   "ts-ext-first"   muxer AND demuxer put the timestamp extension byte before the 24 low bits
               \* implementation boundaries (a fast path through a fixed scratch buffer of ScratchCap bytes whose guard
               \* forgets the 4 bytes of PreviousTagSize): wrong only for a window of 4 body sizes that is no boundary
               \* of the format - which is why every body size is swept (MC: McSweep, GEN: Gen_FlvSweep)
               \*   "mux-scratch-trunc"   the muxer gathers header + body + PreviousTagSize in the scratch when
               \*                         11 + size <= ScratchCap and writes what fitted: sizes ScratchCap-14 ..
               \*                         ScratchCap-11 lose 1..4 bytes of PreviousTagSize
               \*   "demux-scratch-short" the demuxer reads body + PreviousTagSize into the scratch when
               \*                         size <= ScratchCap and consumes what fitted: after a body of ScratchCap-3 ..
               \*                         ScratchCap bytes 1..4 bytes of PreviousTagSize are left in the stream

               \* the caller's memory and the way the end of the stream is signalled (both are the caller's choice):
               \*   "mux-append-in-place" the muxer builds body + PreviousTagSize with append(body, ...): when the
               \*                         caller's slice has >= 4 bytes of spare capacity the 4 bytes are stored in the
               \*                         caller's memory behind the body - the body of a later tag if the bodies are
               \*                         adjacent windows of one buffer; that tag is written corrupted
               \*   "demux-err-before-n"  the demuxer's read loop looks at the error before it credits the bytes: when
               \*                         the reader returns the last bytes of the stream together with end-of-stream
               \*                         the call that needs them fails and the last tag is lost

VARIABLES
  flags, tags,              \* the input: what the application writes
  arena,                    \* the caller's memory: all tag bodies, adjacent in one buffer in file order; WriteTag k gets the
                            \* window [BodyOff(k), BodyOff(k) + n) of it, with capacity up to the end of the buffer
                            \* (a body allocated on its own is the case of the last window: nothing behind it)
  mpc, written, file,       \* muxer: call state, number of tags written, bytes produced so far
  avail,                    \* transport: number of bytes of the file delivered to the reader so far
  eofWith,                  \* transport: the last bytes were delivered TOGETHER with end-of-stream (io.Reader: n > 0, io.EOF)
  dpc, pos, pending,        \* demuxer: call state, bytes consumed, the tag header read last
  hdrOut, got               \* demuxer: result of ReadHeader, tags returned so far

vars == <<flags, tags, arena, mpc, written, file, avail, eofWith, dpc, pos, pending, hdrOut, got>>

\* ----------------------------------------------------------------- layout
FlagsByte(f) == (IF f.audio THEN 4 ELSE 0) + (IF f.video THEN 1 ELSE 0)

HeaderEnc(f) == <<Raw(<<70, 76, 86>>), U8(1), U8(FlagsByte(f)), U32(9), \* the 9 byte header
                  U32(0)>>                                              \* PreviousTagSize0

BodyEnc(g)   == IF g.n > 0 THEN <<Fill(g.n, g.id)>> ELSE <<>>

TagEnc(g)    == <<U8(g.t), U24(g.n), U24(g.ts[2]), U8(g.ts[1]), U24(0)>> \o BodyEnc(g)
                \o <<U32(11 + g.n)>>                                    \* PreviousTagSize

RECURSIVE TagsEnc(_)
TagsEnc(gs)  == IF gs = <<>> THEN <<>> ELSE TagEnc(Head(gs)) \o TagsEnc(Tail(gs))

FileEnc(f, gs) == HeaderEnc(f) \o TagsEnc(gs)

\* the scratch buffer of the two fast-path deviations (a cfg may override it: ScratchCap <- ...)
ScratchCap == 16
Min(a, b)  == IF a < b THEN a ELSE b

\* the caller's memory as the application filled it: the bodies of all tags one after the other
RECURSIVE ArenaOf(_)
ArenaOf(gs) == IF gs = <<>> THEN <<>> ELSE FieldBytes(Fill(Head(gs).n, Head(gs).id)) \o ArenaOf(Tail(gs))
RECURSIVE BodyOff(_, _)
BodyOff(gs, k) == IF k <= 1 THEN 0 ELSE gs[k - 1].n + BodyOff(gs, k - 1)   \* where the body of tag k starts (0-based)

\* What the modelled muxer writes for a tag whose body it finds in the caller's memory (the layout, unless a deviation
\* is switched on): header fields, the body bytes as they are in memory NOW, PreviousTagSize
MuxHeadEnc(g) ==
  IF Deviation = "ts-ext-first" THEN <<U8(g.t), U24(g.n), U8(g.ts[1]), U24(g.ts[2]), U24(0)>>
  ELSE <<U8(g.t), U24(g.n), U24(g.ts[2]), U8(g.ts[1]), U24(0)>>
MuxPtsEnc(g)  == IF Deviation = "pts-body-only" THEN <<U32(g.n)>> ELSE <<U32(11 + g.n)>>
MuxTagBytes(g, body) ==
  LET all == Bytes(MuxHeadEnc(g)) \o body \o Bytes(MuxPtsEnc(g)) IN
  \* the fast path writes only what fitted into the scratch
  IF Deviation = "mux-scratch-trunc" /\ 11 + g.n <= ScratchCap THEN Sub(all, 1, Min(15 + g.n, ScratchCap)) ELSE all
\* What the call leaves in the caller's memory (the layout says nothing: the muxer only reads it)
MuxArenaAfter(mem, off, g) ==
  IF Deviation = "mux-append-in-place" /\ Len(mem) - (off + g.n) >= 4
  THEN LET p == Bytes(<<U32(11 + g.n)>>) IN
       [i \in 1..Len(mem) |-> IF i > off + g.n /\ i <= off + g.n + 4 THEN p[i - off - g.n] ELSE mem[i]]
  ELSE mem
\* How many bytes the modelled demuxer's ReadTag takes from the stream for a body of n bytes (the layout: n + 4)
DemuxTagTake(n) ==
  IF Deviation = "demux-scratch-short" /\ n <= ScratchCap THEN Min(n + 4, ScratchCap) ELSE n + 4

\* ------------------------------------------- what the demuxer calls compute
\* ReadHeader: 13 bytes (header and PreviousTagSize0, which is skipped)
DemuxHeader(b) == [sig |-> Sub(b, 1, 3) = <<70, 76, 86>>, version |-> b[4],
                   video |-> b[5] % 2 = 1, audio |-> (b[5] \div 4) % 2 = 1]
\* ReadTagHeader: 11 bytes
DemuxTagHeader(b) ==
  [t |-> b[1], n |-> BE24(b, 2),
   ts |-> IF Deviation = "ts-ext-first" THEN <<b[5], BE24(b, 6)>> ELSE <<b[8], BE24(b, 5)>>]

\* --------------------------- reference decoder: a strict FLV version 1 parser
\* Independent of the call-level model above: it reads a whole byte string and
\* also checks everything the demuxer skips (data offset, PreviousTagSize
\* fields, stream id, reserved flag bits).
RECURSIVE TagsDec(_)
TagsDec(b) ==
  IF b = <<>> THEN [wf |-> TRUE, tags |-> <<>>]
  ELSE IF Len(b) < 15 THEN [wf |-> FALSE, tags |-> <<>>]
  ELSE LET n == BE24(b, 2) IN
       IF Len(b) < 15 + n THEN [wf |-> FALSE, tags |-> <<>>]
       ELSE LET r == TagsDec(Drop(b, 15 + n))
                g == [t |-> b[1], ts |-> <<b[8], BE24(b, 5)>>, n |-> n, body |-> Sub(b, 12, n)]
            IN [wf   |-> /\ r.wf
                         /\ BE24(b, 9) = 0                                    \* StreamID
                         /\ Sub(b, 12 + n, 4) = Bytes(<<U32(11 + n)>>),       \* PreviousTagSize
                tags |-> <<g>> \o r.tags]

FileDec(b) ==
  IF Len(b) < 13 THEN [wf |-> FALSE, version |-> 0, video |-> FALSE, audio |-> FALSE, tags |-> <<>>]
  ELSE LET r == TagsDec(Drop(b, 13))
       IN [wf |-> /\ Sub(b, 1, 3) = <<70, 76, 86>>
                  /\ b[4] = 1
                  /\ b[5] \div 8 = 0 /\ (b[5] \div 2) % 2 = 0                 \* reserved flag bits
                  /\ Sub(b, 6, 4) = <<0, 0, 0, 9>>                            \* DataOffset
                  /\ Sub(b, 10, 4) = <<0, 0, 0, 0>>                           \* PreviousTagSize0
                  /\ r.wf,
           version |-> b[4], video |-> b[5] % 2 = 1, audio |-> (b[5] \div 4) % 2 = 1,
           tags |-> r.tags]

\* a tag as it looks after decoding its bytes (payload bytes instead of the payload id)
CTag(g)   == [t |-> g.t, ts |-> g.ts, n |-> g.n, body |-> [i \in 1..g.n |-> FillByte(g.id, i - 1)]]
CTags(gs) == [i \in 1..Len(gs) |-> CTag(gs[i])]

\* ------------------------------------------------------------ transitions
Init == /\ flags \in FlagSets /\ tags \in TagLists
        /\ arena = ArenaOf(tags)
        /\ mpc = "hdr" /\ written = 0 /\ file = <<>>
        /\ avail = 0 /\ eofWith = FALSE
        /\ dpc = "hdr" /\ pos = 0 /\ pending = [t |-> 0, n |-> 0, ts |-> <<0, 0>>]
        /\ hdrOut = [sig |-> FALSE, version |-> 0, video |-> FALSE, audio |-> FALSE]
        /\ got = <<>>

\* muxer
WriteHeader == /\ mpc = "hdr"
               /\ file' = file \o Bytes(HeaderEnc(flags))
               /\ mpc' = "tag"
               /\ UNCHANGED <<flags, tags, arena, written, avail, eofWith, dpc, pos, pending, hdrOut, got>>
WriteTag    == /\ mpc = "tag" /\ written < Len(tags)
               /\ LET g == tags[written + 1]  off == BodyOff(tags, written + 1) IN
                    /\ file'  = file \o MuxTagBytes(g, Sub(arena, off + 1, g.n))
                    /\ arena' = MuxArenaAfter(arena, off, g)
               /\ written' = written + 1
               /\ UNCHANGED <<flags, tags, mpc, avail, eofWith, dpc, pos, pending, hdrOut, got>>
CloseMux    == /\ mpc = "tag" /\ written = Len(tags)
               /\ mpc' = "closed"
               /\ UNCHANGED <<flags, tags, arena, written, file, avail, eofWith, dpc, pos, pending, hdrOut, got>>

\* transport: one more segment reaches the reader
Deliver(n)  == /\ n > 0 /\ avail + n <= Len(file)
               /\ avail' = avail + n
               /\ UNCHANGED <<flags, tags, arena, mpc, written, file, eofWith, dpc, pos, pending, hdrOut, got>>
DeliverRest == /\ avail < Len(file)
               /\ avail' = Len(file)
               /\ UNCHANGED <<flags, tags, arena, mpc, written, file, eofWith, dpc, pos, pending, hdrOut, got>>
\* the last segment of a finished file, end-of-stream reported by the same Read that hands out its last byte
\* (otherwise end-of-stream is a Read of its own, after everything has been delivered: ReadEOF)
DeliverFinal == /\ mpc = "closed" /\ avail < Len(file)
                /\ avail' = Len(file) /\ eofWith' = TRUE
                /\ UNCHANGED <<flags, tags, arena, mpc, written, file, dpc, pos, pending, hdrOut, got>>

\* demuxer: a call returns when the bytes it needs have arrived
Buffered == avail - pos
ReadHeader    == /\ dpc = "hdr" /\ Buffered >= 13
                 /\ hdrOut' = DemuxHeader(Sub(file, pos + 1, 13))
                 /\ pos' = pos + 13 /\ dpc' = "tagHdr"
                 /\ UNCHANGED <<flags, tags, arena, mpc, written, file, avail, eofWith, pending, got>>
ReadTagHeader == /\ dpc = "tagHdr" /\ Buffered >= 11
                 /\ pending' = DemuxTagHeader(Sub(file, pos + 1, 11))
                 /\ pos' = pos + 11 /\ dpc' = "body"
                 /\ UNCHANGED <<flags, tags, arena, mpc, written, file, avail, eofWith, hdrOut, got>>
\* the body, then 4 bytes PreviousTagSize which are dropped
\* (deviation "demux-err-before-n": the Read that completes the call came back with end-of-stream -> the call fails)
LosesLast(take) == Deviation = "demux-err-before-n" /\ eofWith /\ take > 0 /\ pos + take = Len(file)
ReadTag       == /\ dpc = "body" /\ Buffered >= pending.n + 4
                 /\ IF LosesLast(pending.n + 4)
                    THEN /\ dpc' = "failed" /\ pos' = Len(file) /\ got' = got
                    ELSE /\ got' = Append(got, [t |-> pending.t, ts |-> pending.ts, n |-> pending.n,
                                                body |-> Sub(file, pos + 1, pending.n)])
                         /\ pos' = pos + DemuxTagTake(pending.n) /\ dpc' = "tagHdr"
                 /\ UNCHANGED <<flags, tags, arena, mpc, written, file, avail, eofWith, pending, hdrOut>>
\* end of file exactly at a tag boundary: ReadTagHeader reports EOF, nothing is returned
ReadEOF       == /\ dpc = "tagHdr" /\ mpc = "closed" /\ pos = Len(file)
                 /\ dpc' = "eof"
                 /\ UNCHANGED <<flags, tags, arena, mpc, written, file, avail, eofWith, pos, pending, hdrOut, got>>

Done == dpc \in {"eof", "failed"} /\ UNCHANGED vars

Next == \/ WriteHeader \/ WriteTag \/ CloseMux
        \/ (\E n \in Segs : Deliver(n)) \/ DeliverRest \/ DeliverFinal
        \/ ReadHeader \/ ReadTagHeader \/ ReadTag \/ ReadEOF
        \/ Done
Spec == Init /\ [][Next]_vars

\* -------------------------------------------------------------- properties
Written == SubSeq(tags, 1, written)

\* the bytes written are exactly the FLV version 1 layout
Layout   == file = (IF mpc = "hdr" THEN <<>> ELSE Bytes(FileEnc(flags, Written)))
\* ... and an independent strict parser reads them as the header flags and the tags written
RefDec   == mpc # "hdr" =>
              FileDec(file) = [wf |-> TRUE, version |-> 1, video |-> flags.video, audio |-> flags.audio,
                               tags |-> CTags(Written)]
\* the demuxer returns the tags written, in order, identical: a prefix at any time, all of them at the end
Prefix   == /\ Len(got) <= written
            /\ got = SubSeq(CTags(tags), 1, Len(got))
            /\ dpc = "body" => LET g == tags[Len(got) + 1] IN pending = [t |-> g.t, n |-> g.n, ts |-> g.ts]
Final    == dpc = "eof" => /\ got = CTags(tags)
                           /\ written = Len(tags)
HeaderOk == dpc # "hdr" => hdrOut = [sig |-> TRUE, version |-> 1, video |-> flags.video, audio |-> flags.audio]
\* consumption is at the layout's tag boundaries, independent of the segmentation
Framing  == /\ pos <= avail /\ avail <= Len(file)
            /\ dpc = "hdr" => pos = 0
            /\ dpc # "hdr" => pos = ByteLen(FileEnc(flags, SubSeq(tags, 1, Len(got)))) + (IF dpc = "body" THEN 11 ELSE 0)
\* the muxer only reads the caller's memory: every body, written already or still to be written, stays what the
\* application put there (else the tags written are not the tags the caller built)
InputsUntouched == arena = ArenaOf(tags)
\* a call whose bytes have all been delivered returns them, however the reader signals the end of the stream
NoLoss   == dpc # "failed"
\* a returned tag is never taken back or altered
Monotone == [][\/ got' = got
               \/ Len(got') = Len(got) + 1 /\ SubSeq(got', 1, Len(got)) = got]_vars
=============================================================================
