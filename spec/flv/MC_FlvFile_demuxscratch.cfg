\* non-vacuity of the size sweep: demuxer fast path that leaves 1..4 bytes of PreviousTagSize in the stream (4 sizes wrong) -> Framing violated
SPECIFICATION Spec
CONSTANTS
  Deviation = "demux-scratch-short"
  FlagSets <- OneFlags
  TagLists <- McSweep
  Segs <- McSegs
INVARIANTS Framing
CHECK_DEADLOCK TRUE
