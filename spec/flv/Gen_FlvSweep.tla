---------------------------- MODULE Gen_FlvSweep ----------------------------
(* Case generation: the dense SIZE SWEEP of C09. The boundary matrix of      *)
(* Gen_FlvFile knows the boundaries of the FORMAT (0, 1, 255/256, 65535/     *)
(* 65536, 2^24-1). An implementation has boundaries of its own (a fast path  *)
(* for small tags, a scratch or buffered-io block of 512 / 4096 / 32768 /    *)
(* 65536 bytes, a guard that forgets the 11 header or the 4 trailer bytes)   *)
(* which nobody outside can know: FlvFile's deviations "mux-scratch-trunc" / *)
(* "demux-scratch-short" are wrong for 4 consecutive body sizes only. So     *)
(* EVERY body size 0..SweepMax is generated, one file per size (INIT ranges  *)
(* over the size):                                                           *)
(*   "ab"   the tag under test, then a small tag of another type and time    *)
(*          stamp: a byte lost or left over misaligns the second tag, and    *)
(*          the second tag's header starts at every file offset 28..28+Max   *)
(*          (block boundaries of buffered writers/readers);                  *)
(*   "bab"  (sizes <= Sweep3Max) a small tag before it as well: the call     *)
(*          under test is not the first one of its muxer / demuxer;          *)
(*   flags  all 4 combinations for sizes <= DenseMax, rotating above.        *)
(* Type and timestamp of the tag under test rotate with the size through the *)
(* matrix values. Each file carries the specification's bytes (FileEnc as a  *)
(* layout descriptor with Fill payloads: ~300 bytes of JSON per file).       *)
EXTENDS FlvFile, TLC, Json

CONSTANTS SweepMin, SweepMax,  \* body sizes of the tag under test
          Sweep3Max,           \* three-tag shape up to this size
          DenseMax             \* all flag combinations up to this size

VARIABLE fam
gvars == <<vars, fam>>

TypeSeq == <<8, 9, 18, 0, 255>>
TsSeq   == << <<0, 0>>, <<0, 1>>, <<0, 16777215>>, <<1, 0>>, <<128, 0>>, <<255, 16777215>>, <<2, 197121>> >>
FlagSeq == << [video |-> FALSE, audio |-> FALSE], [video |-> TRUE, audio |-> FALSE],
              [video |-> FALSE, audio |-> TRUE],  [video |-> TRUE, audio |-> TRUE] >>

Tag(t, ts, n, id) == [t |-> t, ts |-> ts, n |-> n, id |-> id]
TypeAt(k)  == TypeSeq[(k % 5) + 1]
TsAt(k)    == TsSeq[(k % 7) + 1]
\* the tag under test, and small neighbours of another type (1..4 bytes, so that their bodies are compared too)
Under(n, id)  == Tag(TypeAt(n), TsAt(n), n, id)
After(n, id)  == Tag(TypeAt(n + 1), TsAt(n + 3), 1 + (n % 4), id)
Before(n, id) == Tag(TypeAt(n + 2), TsAt(n + 5), 1 + ((n \div 4) % 4), id)

TagsOf(shape, n) == IF shape = "ab" THEN <<Under(n, 1), After(n, 2)>>
                    ELSE <<Before(n, 1), Under(n, 2), After(n, 3)>>
ShapesOf(n) == IF n <= Sweep3Max THEN {"ab", "bab"} ELSE {"ab"}
FlagsOf(n)  == IF n <= DenseMax THEN {FlagSeq[i] : i \in 1..4} ELSE {FlagSeq[(n % 4) + 1]}

SweepInit == /\ \E n \in SweepMin..SweepMax : \E shape \in ShapesOf(n) : \E f \in FlagsOf(n) :
                  /\ flags = f /\ tags = TagsOf(shape, n) /\ fam = "sweep-" \o shape
             /\ mpc = "hdr" /\ written = 0 /\ file = <<>> /\ avail = 0 /\ arena = <<>> /\ eofWith = FALSE
             /\ dpc = "hdr" /\ pos = 0 /\ pending = [t |-> 0, n |-> 0, ts |-> <<0, 0>>]
             /\ hdrOut = [sig |-> FALSE, version |-> 0, video |-> FALSE, audio |-> FALSE]
             /\ got = <<>>
SweepNext == UNCHANGED gvars

CaseOf == [kind |-> "file", fam |-> fam, flags |-> flags, tags |-> tags,
           enc |-> FileEnc(flags, tags), len |-> ByteLen(FileEnc(flags, tags)),
           hdr |-> [version |-> 1, video |-> flags.video, audio |-> flags.audio]]
Emit   == PrintT(<<"CASE", ToJson(CaseOf)>>)
=============================================================================
