\* the demuxer scratch deviation is invisible on every size outside its window of 4 (this run PASSES)
SPECIFICATION Spec
CONSTANTS
  Deviation = "demux-scratch-short"
  FlagSets <- OneFlags
  TagLists <- McSweepOutsideDemux
  Segs <- McSegs
INVARIANTS Layout RefDec Prefix Final HeaderOk Framing InputsUntouched NoLoss
CHECK_DEADLOCK TRUE
