---------------------------- MODULE Gen_FlvFile ----------------------------
(* Case generation for whole files: the boundary value matrix of C09, each   *)
(* file with the specification's bytes (FileEnc as a layout descriptor) and  *)
(* the values a demuxer has to return. One JSON line per file.               *)
(*   BFS configs (quick/thorough): every member of the families below.       *)
(*   sim config: random walks appending arbitrary tags (unfactored product,  *)
(*   random members of each size/timestamp class), emitted at SimLen tags.   *)
EXTENDS FlvFile, TLC, Json

CONSTANTS Sizes,     \* body sizes of the matrix
          BigSizes,  \* body sizes that are only combined sparsely (2^24-1)
          BigFull,   \* FALSE: two files with such a body; TRUE: every type and timestamp, every position
          SeqLens,   \* lengths of the multi-tag files
          Salts,     \* how many different type/timestamp/flag assignments each size sequence gets
          SimLen     \* number of tags of a simulated file

VARIABLE fam
gvars == <<vars, fam>>

Range(s) == {s[i] : i \in DOMAIN s}

TypeSeq == <<8, 9, 18, 0, 255>>                      \* audio, video, script data, forbidden, all bits
TsSeq   == << <<0, 0>>, <<0, 1>>, <<0, 16777215>>,   \* 0, 1, 2^24-1
              <<1, 0>>, <<128, 0>>, <<255, 16777215>> >> \* 2^24, 2^31, 2^32-1
FlagSeq == << [video |-> FALSE, audio |-> FALSE], [video |-> TRUE, audio |-> FALSE],
              [video |-> FALSE, audio |-> TRUE],  [video |-> TRUE, audio |-> TRUE] >>
SmallSeq == <<0, 1, 255>>
AllFlags == Range(FlagSeq)

Tag(t, ts, n, id) == [t |-> t, ts |-> ts, n |-> n, id |-> id]
TypeAt(i, salt)  == TypeSeq[((i + salt) % 5) + 1]
TsAt(i, salt)    == TsSeq[((2 * i + salt) % 6) + 1]
FlagsAt(salt)    == FlagSeq[(salt % 4) + 1]

\* one tag: the full product
Single == { [fam |-> "single", flags |-> f, tags |-> <<Tag(t, ts, n, 1)>>] :
              f \in AllFlags, t \in Range(TypeSeq), ts \in Range(TsSeq), n \in Sizes }
\* no tag at all
Empty  == { [fam |-> "empty", flags |-> f, tags |-> <<>>] : f \in AllFlags }
\* every sequence of sizes (framing: where tag k+1 starts depends on the sizes before it)
SizeFam == UNION { { [fam |-> "sizes", flags |-> FlagsAt(salt),
                      tags |-> [i \in 1..len |-> Tag(TypeAt(i, salt), TsAt(i, salt), s[i], i)]] :
                       s \in [1..len -> Sizes], salt \in Salts } : len \in SeqLens }
\* every sequence of timestamps (any order: the container does not require monotonic time)
TsFam   == UNION { { [fam |-> "ts", flags |-> FlagsAt(salt + 1),
                      tags |-> [i \in 1..len |-> Tag(TypeAt(i, salt + 2), s[i], SmallSeq[((i + salt) % 3) + 1], i)]] :
                       s \in [1..len -> Range(TsSeq)], salt \in Salts \cap {0, 1} } : len \in SeqLens \cap {2, 3} }
\* 2^24-1 bodies: PreviousTagSize needs its top byte; alone with every type and timestamp, and at every position of a file
BigFam  == IF ~BigFull
           THEN { [fam |-> "big", flags |-> FlagsAt(3), tags |-> <<Tag(9, <<255, 16777215>>, b, 1)>>] : b \in BigSizes }
                \cup
                { [fam |-> "bigseq", flags |-> FlagsAt(2), tags |-> <<Tag(8, <<1, 0>>, 1, 1), Tag(18, <<0, 1>>, b, 2), Tag(9, <<128, 0>>, 0, 3)>>] :
                    b \in BigSizes }
           ELSE
           { [fam |-> "big", flags |-> FlagsAt(ti + tsi), tags |-> <<Tag(TypeSeq[ti], TsSeq[tsi], b, 1)>>] :
               ti \in 1..5, tsi \in 1..6, b \in BigSizes }
           \cup
           { [fam |-> "bigseq", flags |-> FlagsAt(p),
              tags |-> [i \in 1..3 |-> Tag(TypeAt(i, p), TsAt(i, p), IF i = p THEN b ELSE o[i], i)]] :
               p \in 1..3, o \in [1..3 -> {0, 65536}], b \in BigSizes }
           \cup
           { [fam |-> "bigseq", flags |-> FlagsAt(3), tags |-> <<Tag(9, <<255, 16777215>>, b, 1), Tag(8, <<1, 0>>, b, 2)>>] :
               b \in BigSizes }

Cases == Single \cup Empty \cup SizeFam \cup TsFam \cup BigFam

\* (the caller's memory is not built here: bodies go up to 2^24-1 bytes; the replayer lays them out as FlvFile's arena)
Rest == /\ mpc = "hdr" /\ written = 0 /\ file = <<>> /\ avail = 0 /\ arena = <<>> /\ eofWith = FALSE
        /\ dpc = "hdr" /\ pos = 0 /\ pending = [t |-> 0, n |-> 0, ts |-> <<0, 0>>]
        /\ hdrOut = [sig |-> FALSE, version |-> 0, video |-> FALSE, audio |-> FALSE]
        /\ got = <<>>

GenInit == /\ \E c \in Cases : flags = c.flags /\ tags = c.tags /\ fam = c.fam
           /\ Rest
GenNext == UNCHANGED gvars

\* ------------------------------------------------------------ simulation
\* (operators with a parameter, so that TLC draws the random members again at every step)
SimSizes(i) == Sizes \cup {RandomElement(2..254), RandomElement(257..65534), RandomElement(65537..200000)}
SimTs(i)    == Range(TsSeq) \cup {<<RandomElement(0..255), RandomElement(0..16777215)>>,
                                  <<RandomElement({0, 1, 127, 128, 255}), RandomElement({0, 255, 256, 65535, 65536, 16777214})>>}
SimTypes(i) == Range(TypeSeq) \cup {RandomElement(0..255)}

SimInit == /\ flags \in AllFlags /\ tags = <<>> /\ fam = "walk" /\ Rest
\* TLC's simulator evaluates invariants on every successor it generates, not only on the one it follows:
\* the file is therefore emitted from the single successor of the complete walk ("sim").
SimNext == \/ /\ Len(tags) < SimLen
              /\ \E t \in SimTypes(Len(tags)), ts \in SimTs(Len(tags)), n \in SimSizes(Len(tags)) :
                   tags' = Append(tags, Tag(t, ts, n, Len(tags) + 1))
              /\ UNCHANGED <<flags, arena, mpc, written, file, avail, eofWith, dpc, pos, pending, hdrOut, got, fam>>
           \/ /\ Len(tags) = SimLen /\ fam = "walk"
              /\ fam' = "sim"
              /\ UNCHANGED vars

\* --------------------------------------------------------------- emission
\* what a demuxer returns: header values, then per tag (type, size, timestamp limbs, payload id), then end of file
CaseOf == [kind |-> "file", fam |-> fam, flags |-> flags, tags |-> tags,
           enc |-> FileEnc(flags, tags), len |-> ByteLen(FileEnc(flags, tags)),
           hdr |-> [version |-> 1, video |-> flags.video, audio |-> flags.audio]]
Emit    == PrintT(<<"CASE", ToJson(CaseOf)>>)
EmitSim == fam = "sim" => PrintT(<<"CASE", ToJson(CaseOf)>>)
=============================================================================
