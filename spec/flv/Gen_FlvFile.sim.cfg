INIT SimInit
NEXT SimNext
CONSTANTS
  Deviation = "none"
  FlagSets = {}
  TagLists = {}
  Segs = {}
  Sizes = {0, 1, 255, 256, 65535, 65536}
  BigSizes = {}
  BigFull = FALSE
  SeqLens = {}
  Salts = {}
  SimLen = 6
INVARIANT EmitSim
CHECK_DEADLOCK FALSE
