\* non-vacuity: PreviousTagSize appended in place to the caller's body slice (spare capacity = the bodies behind it) -> the caller's memory is written
SPECIFICATION Spec
CONSTANTS
  Deviation = "mux-append-in-place"
  FlagSets <- OneFlags
  TagLists <- McAdj
  Segs <- McSegs
INVARIANTS InputsUntouched
CHECK_DEADLOCK TRUE
