\* non-vacuity: timestamp extension byte first, in muxer and demuxer alike -> not the FLV layout
SPECIFICATION Spec
CONSTANTS
  Deviation = "ts-ext-first"
  FlagSets <- AllFlags
  TagLists <- McQuick
  Segs <- McSegs
INVARIANTS Layout
CHECK_DEADLOCK TRUE
