\* non-vacuity: PreviousTagSize written without the 11 header bytes -> the strict parser must object
SPECIFICATION Spec
CONSTANTS
  Deviation = "pts-body-only"
  FlagSets <- AllFlags
  TagLists <- McQuick
  Segs <- McSegs
INVARIANTS RefDec
CHECK_DEADLOCK TRUE
