\* non-vacuity of the size sweep: muxer fast path through a scratch whose guard forgets PreviousTagSize (4 sizes wrong) -> Layout violated
SPECIFICATION Spec
CONSTANTS
  Deviation = "mux-scratch-trunc"
  FlagSets <- OneFlags
  TagLists <- McSweep
  Segs <- McSegs
INVARIANTS Layout
CHECK_DEADLOCK TRUE
