INIT SweepInit
NEXT SweepNext
CONSTANTS
  Deviation = "none"
  FlagSets = {}
  TagLists = {}
  Segs = {}
  SweepMin = 0
  SweepMax = 70000
  Sweep3Max = 12352
  DenseMax = 300
INVARIANT Emit
CHECK_DEADLOCK FALSE
