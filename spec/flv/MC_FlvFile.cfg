SPECIFICATION Spec
CONSTANTS
  Deviation = "none"
  FlagSets <- AllFlags
  TagLists <- McQuick
  Segs <- McSegs
INVARIANTS Layout RefDec Prefix Final HeaderOk Framing
PROPERTY Monotone
CHECK_DEADLOCK TRUE
