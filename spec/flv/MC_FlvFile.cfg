SPECIFICATION Spec
CONSTANTS
  Deviation = "none"
  FlagSets <- AllFlags
  TagLists <- McQuickAdj
  Segs <- McSegs
INVARIANTS Layout RefDec Prefix Final HeaderOk Framing InputsUntouched NoLoss
PROPERTY Monotone
CHECK_DEADLOCK TRUE
