\* a wrong PreviousTagSize is invisible to the demuxer, which skips it: these invariants HOLD under the deviation
SPECIFICATION Spec
CONSTANTS
  Deviation = "pts-body-only"
  FlagSets <- AllFlags
  TagLists <- McQuick
  Segs <- McSegs
INVARIANTS Prefix Final HeaderOk Framing
CHECK_DEADLOCK TRUE
