---------------------------- MODULE Gen_FlvSched ----------------------------
(* Behaviour generation from the call-level state machine of FlvFile: random  *)
(* interleavings of muxer calls, segment deliveries and demuxer calls (TLC    *)
(* -simulate, seeded). Every step is recorded with what the specification     *)
(* says the call returns and how far the file and the reader have advanced;   *)
(* the replayer executes exactly this schedule against the library.           *)
EXTENDS FlvFile, TLC, Json

VARIABLES hist, target
gvars == <<vars, hist, target>>

AllFlags == [video : BOOLEAN, audio : BOOLEAN]

\* tags for the walks: every byte position of size / timestamp / PreviousTagSize gets non-zero values
SchedTypes == {8, 9, 18, 0, 255}
SchedTs    == { <<0, 0>>, <<0, 16777215>>, <<1, 0>>, <<128, 0>>, <<255, 16777215>>, <<2, 197121>> }
SchedSizes == {0, 1, 2, 11, 15, 255, 256, 300}
SchedSegs  == {1, 2, 3, 4, 10, 11, 13, 15, 100}

\* the input is drawn by the walk itself (AddTag, until the file has `target' tags) so that the set of
\* initial states stays small
MaxTags == 5
GInit == /\ flags \in AllFlags /\ tags = <<>> /\ target \in 0..MaxTags
         /\ mpc = "input" /\ written = 0 /\ file = <<>> /\ avail = 0 /\ arena = <<>> /\ eofWith = FALSE
         /\ dpc = "hdr" /\ pos = 0 /\ pending = [t |-> 0, n |-> 0, ts |-> <<0, 0>>]
         /\ hdrOut = [sig |-> FALSE, version |-> 0, video |-> FALSE, audio |-> FALSE]
         /\ got = <<>>
         /\ hist = <<>>

AddTag == /\ mpc = "input" /\ Len(tags) < target
          /\ \E t \in SchedTypes, ts \in SchedTs, n \in SchedSizes :
               tags' = Append(tags, [t |-> t, ts |-> ts, n |-> n, id |-> Len(tags) + 1])
          /\ UNCHANGED <<flags, arena, mpc, written, file, avail, eofWith, dpc, pos, pending, hdrOut, got, hist>>
\* the application has built its tags: their bodies lie adjacent in its memory
Start  == /\ mpc = "input" /\ Len(tags) = target
          /\ mpc' = "hdr" /\ arena' = ArenaOf(tags)
          /\ UNCHANGED <<flags, tags, written, file, avail, eofWith, dpc, pos, pending, hdrOut, got, hist>>

Rec(r) == hist' = Append(hist, r) /\ UNCHANGED target

GNext ==
  \/ (AddTag \/ Start) /\ UNCHANGED target
  \/ WriteHeader /\ Rec([op |-> "WriteHeader", flen |-> Len(file')])
  \/ WriteTag    /\ Rec([op |-> "WriteTag", k |-> written', flen |-> Len(file')])
  \/ CloseMux    /\ Rec([op |-> "CloseMux", flen |-> Len(file')])
  \/ \E n \in Segs : Deliver(n) /\ Rec([op |-> "Deliver", n |-> n])
  \/ DeliverRest /\ Rec([op |-> "Deliver", n |-> avail' - avail])
  \/ DeliverFinal /\ Rec([op |-> "Deliver", n |-> avail' - avail, eof |-> TRUE])   \* end-of-stream with the last bytes
  \/ ReadHeader    /\ Rec([op |-> "ReadHeader", version |-> hdrOut'.version, video |-> hdrOut'.video,
                           audio |-> hdrOut'.audio, pos |-> pos'])
  \/ ReadTagHeader /\ Rec([op |-> "ReadTagHeader", t |-> pending'.t, n |-> pending'.n, ts |-> pending'.ts, pos |-> pos'])
  \/ ReadTag       /\ Rec([op |-> "ReadTag", k |-> Len(got'), n |-> pending.n, pos |-> pos'])
  \/ ReadEOF       /\ Rec([op |-> "ReadEOF", pos |-> pos'])

\* ReadEOF is the only step enabled in the state before it, so the end of a walk is emitted exactly once.
\* The body a ReadTag step returns is that of tags[k]: Prefix (checked on every state of the walk) says so.
EmitSched == dpc = "eof" =>
  PrintT(<<"CASE", ToJson([kind |-> "sched", flags |-> flags, tags |-> tags, steps |-> hist,
                           enc |-> FileEnc(flags, tags), len |-> ByteLen(FileEnc(flags, tags))])>>)

InputPhase == mpc = "input"
PrefixG   == InputPhase \/ Prefix
LayoutG   == InputPhase \/ Layout
FramingG  == InputPhase \/ Framing
InputsG   == InputPhase \/ InputsUntouched
=============================================================================
