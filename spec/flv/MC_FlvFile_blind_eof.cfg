\* the error-before-count loop is invisible when end-of-stream is a Read of its own: PASSES with DeliverFinal disabled (Spec without it), hence the data+EOF segmentations
SPECIFICATION SpecSeparateEOF
CONSTANTS
  Deviation = "demux-err-before-n"
  FlagSets <- AllFlags
  TagLists <- McQuick
  Segs <- McSegs
INVARIANTS Layout RefDec Prefix Final HeaderOk Framing InputsUntouched NoLoss
CHECK_DEADLOCK TRUE
