INIT GenInit
NEXT GenNext
CONSTANTS
  Deviation = "none"
  FlagSets = {}
  TagLists = {}
  Segs = {}
  Sizes = {0, 1, 255, 256, 65535, 65536}
  BigSizes = {16777215}
  BigFull = TRUE
  SeqLens = {2, 3, 4}
  Salts = {0, 1, 2, 3, 4, 5}
  SimLen = 0
INVARIANT Emit
CHECK_DEADLOCK FALSE
