\* the property for EVERY body size 0..McSweepMax (two-tag files), all interleavings (quick: one flag combination)
SPECIFICATION Spec
CONSTANTS
  Deviation = "none"
  FlagSets <- OneFlags
  TagLists <- McSweep
  Segs <- McSegs
INVARIANTS Layout RefDec Prefix Final HeaderOk Framing InputsUntouched NoLoss
PROPERTY Monotone
CHECK_DEADLOCK TRUE
