---------------------------- MODULE MC_FlvFile ----------------------------
(* Small constants for the exhaustive runs: every interleaving of muxer     *)
(* calls, segment deliveries and demuxer calls for these inputs.            *)
EXTENDS FlvFile

AllFlags == [video : BOOLEAN, audio : BOOLEAN]

\* a pool of tags whose fields have non-zero bytes in every position that matters
Pool == << [t |-> 8,   ts |-> <<0, 0>>,          n |-> 0],
           [t |-> 9,   ts |-> <<1, 0>>,          n |-> 1],
           [t |-> 255, ts |-> <<255, 16777215>>, n |-> 3],
           [t |-> 18,  ts |-> <<0, 65792>>,      n |-> 2],
           [t |-> 0,   ts |-> <<128, 1>>,        n |-> 5],
           [t |-> 9,   ts |-> <<2, 197121>>,     n |-> 4] >>

\* all lists of at most maxLen tags drawn from the first k tags of the pool; payload id = position in the file
RECURSIVE Lists(_, _)
Lists(k, len) == IF len = 0 THEN {<<>>}
                 ELSE {Append(l, Pool[i]) : l \in Lists(k, len - 1), i \in 1..k}
WithIds(l) == [i \in 1..Len(l) |-> [t |-> l[i].t, ts |-> l[i].ts, n |-> l[i].n, id |-> i]]
UpTo(k, maxLen) == {WithIds(l) : l \in UNION {Lists(k, len) : len \in 0..maxLen}}

McQuick    == UpTo(4, 2)
McThorough == UpTo(6, 3)
McSegs     == {1, 4, 11}
=============================================================================
