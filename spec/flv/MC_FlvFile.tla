---------------------------- MODULE MC_FlvFile ----------------------------
(* Small constants for the exhaustive runs: every interleaving of muxer     *)
(* calls, segment deliveries and demuxer calls for these inputs.            *)
EXTENDS FlvFile

AllFlags == [video : BOOLEAN, audio : BOOLEAN]

\* a pool of tags whose fields have non-zero bytes in every position that matters
Pool == << [t |-> 8,   ts |-> <<0, 0>>,          n |-> 0],
           [t |-> 9,   ts |-> <<1, 0>>,          n |-> 1],
           [t |-> 255, ts |-> <<255, 16777215>>, n |-> 3],
           [t |-> 18,  ts |-> <<0, 65792>>,      n |-> 2],
           [t |-> 0,   ts |-> <<128, 1>>,        n |-> 5],
           [t |-> 9,   ts |-> <<2, 197121>>,     n |-> 4] >>

\* all lists of at most maxLen tags drawn from the first k tags of the pool; payload id = position in the file
RECURSIVE Lists(_, _)
Lists(k, len) == IF len = 0 THEN {<<>>}
                 ELSE {Append(l, Pool[i]) : l \in Lists(k, len - 1), i \in 1..k}
WithIds(l) == [i \in 1..Len(l) |-> [t |-> l[i].t, ts |-> l[i].ts, n |-> l[i].n, id |-> i]]
UpTo(k, maxLen) == {WithIds(l) : l \in UNION {Lists(k, len) : len \in 0..maxLen}}

McQuick    == UpTo(4, 2)
\* readers that report end-of-stream by a Read of its own only (bytes.Reader, os.File): no DeliverFinal
SpecSeparateEOF == Init /\ [][Next /\ ~DeliverFinal]_vars
\* bodies with at least 4 bytes of caller memory behind them (the later bodies): where an in-place append lands
McAdj      == {WithIds(<<Pool[a], Pool[b]>>) : a, b \in {2, 5, 6}} \cup {WithIds(<<Pool[2], Pool[4], Pool[3]>>)}
McQuickAdj == McQuick \cup McAdj
McSingles  == UpTo(6, 1)            \* files of at most one tag: no body has another body behind it
McThorough == UpTo(6, 3)
McSegs     == {1, 4, 11}

\* the size sweep at model scale: EVERY body size 0..McSweepMax (well beyond ScratchCap), the tag under test followed
\* by a small tag of another type so that a misaligned reader shows. An implementation boundary (a fast path, a
\* scratch buffer) is wrong for a few sizes that no boundary-value matrix of the FORMAT contains.
McSweepMax == 20
SweepList(k) == WithIds(<< [t |-> 9, ts |-> <<1, 65794>>, n |-> k], [t |-> 8, ts |-> <<0, 3>>, n |-> 1] >>)
McSweep    == {SweepList(k) : k \in 0..McSweepMax}
\* the same sweep without the windows of the two scratch deviations (ScratchCap = 16: muxer 2..5, demuxer 13..16):
\* there the deviations are invisible (MC_FlvFile_sweep_outside_*.cfg pass)
McSweepOutsideMux   == {SweepList(k) : k \in (0..McSweepMax) \ (ScratchCap - 14 .. ScratchCap - 11)}
McSweepOutsideDemux == {SweepList(k) : k \in (0..McSweepMax) \ (ScratchCap - 3 .. ScratchCap)}
OneFlags   == {[video |-> TRUE, audio |-> FALSE]}
=============================================================================
