INIT SweepInit
NEXT SweepNext
CONSTANTS
  Deviation = "none"
  FlagSets = {}
  TagLists = {}
  Segs = {}
  SweepMin = 0
  SweepMax = 12352
  Sweep3Max = 4160
  DenseMax = 300
INVARIANT Emit
CHECK_DEADLOCK FALSE
