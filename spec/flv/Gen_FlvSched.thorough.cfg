INIT GInit
NEXT GNext
CONSTANTS
  Deviation = "none"
  FlagSets = {}
  TagLists = {}
  Segs <- SchedSegs
INVARIANTS LayoutG PrefixG Final HeaderOk FramingG InputsG NoLoss EmitSched
CHECK_DEADLOCK FALSE
