\* the in-place append is invisible when no body has anything behind it (files of at most one tag = bodies allocated on their own): this run PASSES, hence adjacent bodies in the replayer
SPECIFICATION Spec
CONSTANTS
  Deviation = "mux-append-in-place"
  FlagSets <- AllFlags
  TagLists <- McSingles
  Segs <- McSegs
INVARIANTS Layout RefDec Prefix Final HeaderOk Framing InputsUntouched NoLoss
CHECK_DEADLOCK TRUE
