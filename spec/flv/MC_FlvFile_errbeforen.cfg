\* non-vacuity: the demuxer looks at the read error before the byte count; end-of-stream delivered with the last bytes -> the last tag is lost
SPECIFICATION Spec
CONSTANTS
  Deviation = "demux-err-before-n"
  FlagSets <- OneFlags
  TagLists <- McQuick
  Segs <- McSegs
INVARIANTS NoLoss
CHECK_DEADLOCK TRUE
