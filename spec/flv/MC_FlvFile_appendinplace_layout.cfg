\* ... and the later tag whose body was hit is written corrupted: not the layout of the tags handed to the muxer
SPECIFICATION Spec
CONSTANTS
  Deviation = "mux-append-in-place"
  FlagSets <- OneFlags
  TagLists <- McAdj
  Segs <- McSegs
INVARIANTS Layout
CHECK_DEADLOCK TRUE
