\* the same two deviations are invisible to the round trip through the (equally deviating / PreviousTagSize-skipping)
\* demuxer: these invariants HOLD, which is why Layout and RefDec are part of the property
SPECIFICATION Spec
CONSTANTS
  Deviation = "ts-ext-first"
  FlagSets <- AllFlags
  TagLists <- McQuick
  Segs <- McSegs
INVARIANTS Prefix Final HeaderOk
CHECK_DEADLOCK TRUE
