SPECIFICATION Spec
CONSTANTS
  Callbacks <- HCallbacks2
  Codes <- HCodes
  Statuses <- HStatuses
  Values <- HValues2
  Messages <- HMessages
  Servers <- HServers
  Forms <- GenForms
  Vias <- DirectOnly
  XCodes <- QuickXCodes
  XStatuses <- QuickXStatuses
  XMessages <- QuickXMessages
  MaxServes = 3
  Deviation = "none"
INVARIANTS EmitHist SuccessIff EnvelopeWellFormed ErrorOwnCode UnmarshalableIsError ClientNeverConfuses ResponseOfCurrentValue AnswerIsCurrent
CHECK_DEADLOCK FALSE
