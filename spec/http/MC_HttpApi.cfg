SPECIFICATION Spec
CONSTANTS
  Callbacks <- McCallbacks
  Codes <- McCodes
  Statuses <- McStatuses
  Values <- McValues
  Messages <- McMessages
  Servers <- McServers
  Forms <- McForms
  Vias <- McVias
  MaxServes = 1
  Deviation = "none"
INVARIANTS TypeOk SuccessIff EnvelopeWellFormed ErrorOwnCode UnmarshalableIsError ClientNeverConfuses ResponseOfCurrentValue AnswerIsCurrent
CHECK_DEADLOCK FALSE
