SPECIFICATION Spec
CONSTANTS
  Callbacks <- McCallbacks
  Codes <- McCodes
  Statuses <- McStatuses
  Values <- McValues
  Messages <- McMessages
  Servers <- McServers
  Deviation = "none"
INVARIANTS TypeOk SuccessIff EnvelopeWellFormed ErrorOwnCode UnmarshalableIsError ClientNeverConfuses
CHECK_DEADLOCK FALSE
