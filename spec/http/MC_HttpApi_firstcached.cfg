SPECIFICATION Spec
CONSTANTS
  Callbacks <- HistCallbacks
  Codes <- HistCodes
  Statuses <- HistStatuses
  Values <- HistValues
  Messages <- HistMessages
  Servers <- HistServers
  Forms <- McForms
  Vias <- McDirect
  MaxServes = 3
  Deviation = "first-response-cached"
INVARIANTS ResponseOfCurrentValue
CHECK_DEADLOCK FALSE
