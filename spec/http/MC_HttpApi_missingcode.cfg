SPECIFICATION Spec
CONSTANTS
  Callbacks <- McCallbacks
  Codes <- McCodes
  Statuses <- McStatuses
  Values <- McValues
  Messages <- McMessages
  Servers <- McServers
  Forms <- McForms
  Vias <- McVias
  MaxServes = 1
  Deviation = "client-missing-code-ok"
INVARIANTS ClientNeverConfuses
CHECK_DEADLOCK FALSE
