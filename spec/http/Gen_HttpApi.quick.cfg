INIT GenInit
NEXT GenNext
CONSTANTS
  Callbacks <- QuickCallbacks
  Codes <- QuickCodes
  Statuses <- QuickStatuses
  Values <- QuickValues
  Messages <- GenMessages
  Servers <- GenServers
  Deviation = "none"
INVARIANTS Emit SuccessIff EnvelopeWellFormed ErrorOwnCode UnmarshalableIsError ClientNeverConfuses
CHECK_DEADLOCK FALSE
