INIT GenInit
NEXT GenNext
CONSTANTS
  Callbacks <- QuickCallbacks
  Codes <- QuickCodes
  Statuses <- QuickStatuses
  Values <- QuickValues
  Messages <- GenMessages
  Servers <- GenServers
  Forms <- GenForms
  Vias <- GenVias
  XCodes <- QuickXCodes
  XStatuses <- QuickXStatuses
  XMessages <- QuickXMessages
  MaxServes = 1
  Deviation = "none"
INVARIANTS Emit SuccessIff EnvelopeWellFormed ErrorOwnCode UnmarshalableIsError ClientNeverConfuses ResponseOfCurrentValue
CHECK_DEADLOCK FALSE
