---------------------------- MODULE MC_HttpApi ----------------------------
EXTENDS HttpApi
McCallbacks == {[present |-> FALSE, name |-> ""], [present |-> TRUE, name |-> ""],
                [present |-> TRUE, name |-> "cb"], [present |-> TRUE, name |-> "a.b.c"]}
McCodes     == {"1", "-1", "100", "2147483647", "-2147483647", "9223372036854775807", "-9223372036854775808"}
McStatuses  == {400, 404, 500, 503}
V(n, m, t)  == [name |-> n, k |-> 0, marshalable |-> m, jtype |-> t]
McValues    == {V("nil", TRUE, "null"), V("str_quotes", TRUE, "string"), V("map_nested", TRUE, "object"),
                V("slice_mixed", TRUE, "array"), V("float_1_5", TRUE, "number"), V("bool_true", TRUE, "bool"),
                V("chan", FALSE, "-"), V("struct_func_field", FALSE, "-"), V("float_nan", FALSE, "-")}
McMessages  == {"text", "jsonobj-nocode", "jsonobj-strcode"}
McServers   == {"Oryx", "VerifSrv/1.0"}
McForms     == {"handler", "write"}
McVias      == AllVias
McDirect    == {"direct"}
\* the life of one handler object (MC_HttpApi_hist*.cfg): few classes, several requests. Two different marshalable
\* classes, two unmarshalable ones: valid v1 -> valid v2 -> unmarshalable -> valid is among the behaviours
HistCallbacks == {[present |-> FALSE, name |-> ""], [present |-> TRUE, name |-> "cb"]}
HistCodes     == {"1", "-9223372036854775808"}
HistStatuses  == {404}
HistValues    == {V("map_nested", TRUE, "object"), V("str_quotes", TRUE, "string"),
                  V("chan", FALSE, "-"), V("float_nan", FALSE, "-")}
HistMessages  == {"text"}
HistServers   == {"Oryx"}
=============================================================================
