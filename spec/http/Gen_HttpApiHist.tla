--------------------------- MODULE Gen_HttpApiHist ---------------------------
(* Case generation for C19, the life of a handler object: behaviours of        *)
(* HttpApi!Spec  Create (Mutate? Arrive Respond ClientRead)^MaxServes Finish,  *)
(* one JSON line per finished behaviour (state pc = "done", reached only by    *)
(* Finish) carrying what the application made, how it holds it, and for every  *)
(* request the callback, the value class (and the version of the content)      *)
(* then behind the reference and the                                           *)
(* specification's expected response and client verdict FOR THAT REQUEST.      *)
(*   exhaustive (Gen_HttpApiHist.<tier>.cfg): every behaviour over few classes *)
(*   simulation (Gen_HttpApiHist_sim.<tier>.cfg): seeded random long           *)
(*     behaviours over the whole value table of Gen_HttpApi                    *)
EXTENDS Gen_HttpApi

HCallbacks2 == {Cbk(FALSE, ""), Cbk(TRUE, "cb")}
HCallbacks3 == HCallbacks2 \cup {Cbk(TRUE, "a.b.c")}
HCodes      == {"1", "-9223372036854775808"}
HStatuses   == {404}
HMessages   == {"text"}
HServers    == {"VerifSrv/1.0 (x)"}
\* quick: a marshalable class and one that cannot be marshalled (Mutate within a class makes valid v1 -> valid v2);
\* thorough: two different marshalable classes
HValues2    == {V("map_nested", "object"), U("float_nan")}
HValues3    == HValues2 \cup {V("str_quotes", "string")}

SimCodes    == {"1", "-1", "9223372036854775807"}
SimStatuses == {400, 503}
SimMessages == {"text", "jsonobj-strcode"}
SimValuesQuick    == FixedValues \cup Rand(6) \cup RandBad(4)
SimValuesThorough == FixedValues \cup Rand(200) \cup RandBad(60)

ClassOf(a) == CASE IsSuccessKind(a) -> "success"
                [] IsCodedKind(a)   -> "coded"
                [] IsPlainKind(a)   -> "status"
                [] OTHER            -> "errorResponse"

StepOf(i) ==
  LET a == AnswerAt(i)  rs == hist[i].resp  r == hist[i].cb IN
  [cb  |-> r, val |-> hist[i].val, ver |-> hist[i].ver,
   exp |-> [class |-> ClassOf(a), status |-> rs.status, ctype |-> rs.ctype, server |-> rs.server, wrap |-> rs.wrap,
            body |-> [t |-> rs.body.t, code |-> rs.body.code]],
   client |-> [verdict |-> hist[i].verdict, code |-> ApiCode(rs), judged |-> ~(IsSuccessKind(a) /\ Cb(r) # "")]]

HistCase == [srv |-> srv, made |-> obj.made, form |-> obj.form, steps |-> [i \in DOMAIN hist |-> StepOf(i)]]

EmitHist == pc = "done" => PrintT(<<"CASE", ToJson(HistCase)>>)
=============================================================================
