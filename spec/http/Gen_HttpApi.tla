---------------------------- MODULE Gen_HttpApi ----------------------------
(* Case generation for C19: the full decision table (kind x code x status x   *)
(* message class x value class x callback x configured Server header), one    *)
(* JSON line per case with the specification's expected response and client   *)
(* verdict. Only the dimensions a kind reads are multiplied (AppResponses).    *)
EXTENDS HttpApi, TLC, Json

\* The rows where an error is several kinds at once (Code() and Status()) or reaches Error behind another value
\* (pointer, embedding struct, wrapper of the errors package) are crossed with these smaller sets only: what they add
\* is the dispatch, which reads neither the number nor the text.
CONSTANTS XCodes, XStatuses, XMessages

Cbk(p, n) == [present |-> p, name |-> n]
QuickCallbacks    == {Cbk(FALSE, ""), Cbk(TRUE, ""), Cbk(TRUE, "cb"), Cbk(TRUE, "a.b.c"), Cbk(TRUE, "a%sb")}
ThoroughCallbacks == QuickCallbacks \cup
                     {Cbk(TRUE, "jQuery1110_1700000000"), Cbk(TRUE, "fn%d"), Cbk(TRUE, "$_"),
                      Cbk(TRUE, "x y&z=1")}

QuickCodes    == {"1", "-1", "100", "2147483647", "-2147483647", "9223372036854775807", "-9223372036854775808"}
ThoroughCodes == QuickCodes \cup {"2", "-100", "65536", "4294967296", "-4294967297", "9007199254740993", "-9007199254740993"}

QuickStatuses    == {400, 404, 500, 503}
ThoroughStatuses == QuickStatuses \cup {401, 403, 418, 429, 502, 599}

GenMessages == {"text", "quotes", "empty", "jsonarr", "jsonobj-nocode", "jsonobj-strcode"}
GenServers  == {"Oryx", "VerifSrv/1.0 (x)"}
GenForms    == {"handler", "write"}
GenVias     == AllVias
DirectOnly  == {"direct"}
QuickXCodes       == {"1", "-9223372036854775808"}
ThoroughXCodes    == QuickXCodes \cup {"-1", "4294967296"}
QuickXStatuses    == {404, 503}
ThoroughXStatuses == QuickXStatuses \cup {400, 500}
QuickXMessages    == {"text", "jsonobj-strcode"}
ThoroughXMessages == QuickXMessages \cup {"empty", "jsonobj-nocode"}

Crossed(a) == a.via # "direct" \/ a.kind = "appErrorWithStatus"
GenRows == {a \in AppResponses :
              Crossed(a) => /\ a.via # "direct" => a.code \in XCodes \cup {"0"}
                            /\ a.status \in XStatuses \cup {0}
                            /\ a.msg \in XMessages \cup {"-"}}

V(n, t)  == [name |-> n, k |-> 0, marshalable |-> TRUE, jtype |-> t]
U(n)     == [name |-> n, k |-> 0, marshalable |-> FALSE, jtype |-> "-"]
FixedValues ==
  { V("nil", "null"),
    V("str_empty", "string"), V("str_plain", "string"), V("str_quotes", "string"), V("str_ctrl", "string"),
    V("str_nonascii", "string"), V("str_script", "string"), V("str_jsonlike", "string"), V("str_jsonp", "string"),
    V("str_long", "string"), V("named_string", "string"),
    V("int_0", "number"), V("int_neg", "number"), V("int_max64", "number"), V("uint_max64", "number"),
    V("float_1_5", "number"), V("float_big", "number"), V("float_tiny", "number"), V("float_negzero", "number"),
    V("float32_val", "number"),
    V("bool_true", "bool"), V("bool_false", "bool"),
    V("slice_empty", "array"), V("slice_nil", "null"), V("slice_mixed", "array"), V("slice_structs", "array"),
    V("bytes", "string"), V("array_fixed", "array"),
    V("map_empty", "object"), V("map_nil", "null"), V("map_nested", "object"), V("map_nastykeys", "object"),
    V("map_intkeys", "object"), V("map_envelope_like", "object"),
    V("struct_tagged", "object"), V("struct_nested", "object"), V("struct_embedded", "object"),
    V("struct_empty", "object"), V("struct_unexported_func", "object"), V("ptr_struct", "object"), V("ptr_nil", "null"), V("ptr_ptr_int", "number"),
    V("marshaler_obj", "object"), V("raw_message", "object"), V("json_number", "number"), V("text_marshaler", "string"),
    U("chan"), U("func"), U("struct_func_field"), U("struct_chan_field"), U("map_with_chan"),
    U("float_nan"), U("float_posinf"), U("float_neginf"), U("slice_nested_nan"), U("complex"),
    U("map_boolkeys"), U("marshaler_error"), U("marshaler_badjson"), U("raw_bad"), U("number_bad"),
    U("ptr_to_chan"), U("deep_nested_func") }
\* seeded random JSON trees (marshalable) and the same with one unmarshalable leaf planted in them
Rand(n)    == {[name |-> "rand", k |-> i, marshalable |-> TRUE, jtype |-> "any"] : i \in 1..n}
RandBad(n) == {[name |-> "randbad", k |-> i, marshalable |-> FALSE, jtype |-> "-"] : i \in 1..n}
QuickValues    == FixedValues \cup Rand(6) \cup RandBad(4)
ThoroughValues == FixedValues \cup Rand(1000) \cup RandBad(300)

\* a handler object at the end of the first request it serves
GenInit == /\ pc = "done" /\ srv \in Servers /\ req \in Callbacks /\ app \in GenRows
           /\ obj = [made |-> app, form |-> "handler"] /\ cell = app.val /\ ver = 0
           /\ resp = Handle(srv, req, app)
           /\ verdict = ApiVerdict(resp)
           /\ hist = <<[cb |-> req, val |-> cell, ver |-> 0, resp |-> resp, verdict |-> verdict]>>
GenNext == UNCHANGED vars

\* what the property lets the replayer hold the library to, per kind
Class == CASE IsSuccessKind(app) -> "success"          \* status, Content-Type, Server, wrapping, envelope
           [] IsCodedKind(app)   -> "coded"            \* the code member of the JSON body
           [] IsPlainKind(app)   -> "status"           \* the HTTP status
           [] OTHER              -> "errorResponse"    \* unmarshalable: any error response, never a success / partial body

CaseOf ==
  [srv |-> srv, cb |-> req, app |-> app,
   exp |-> [class |-> Class, status |-> resp.status, ctype |-> resp.ctype, server |-> resp.server,
            wrap |-> resp.wrap, body |-> resp.body],
   \* the client is not required to read JSONP: its verdict on a wrapped *success* is not judged
   client |-> [verdict |-> verdict, code |-> ApiCode(resp), judged |-> ~(IsSuccessKind(app) /\ Cb(req) # "")]]

Emit == PrintT(<<"CASE", ToJson(CaseOf)>>)
=============================================================================
