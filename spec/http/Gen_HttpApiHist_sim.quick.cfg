SPECIFICATION Spec
CONSTANTS
  Callbacks <- QuickCallbacks
  Codes <- SimCodes
  Statuses <- SimStatuses
  Values <- SimValuesQuick
  Messages <- SimMessages
  Servers <- GenServers
  Forms <- GenForms
  Vias <- DirectOnly
  XCodes <- QuickXCodes
  XStatuses <- QuickXStatuses
  XMessages <- QuickXMessages
  MaxServes = 8
  Deviation = "none"
INVARIANTS EmitHist SuccessIff EnvelopeWellFormed ErrorOwnCode UnmarshalableIsError ClientNeverConfuses ResponseOfCurrentValue AnswerIsCurrent
CHECK_DEADLOCK FALSE
