SPECIFICATION Spec
CONSTANTS
  Callbacks <- McCallbacks
  Codes <- McCodes
  Statuses <- McStatuses
  Values <- McValues
  Messages <- McMessages
  Servers <- McServers
  Forms <- McForms
  Vias <- McVias
  MaxServes = 1
  Deviation = "status-not-applied"
INVARIANTS ErrorOwnCode
CHECK_DEADLOCK FALSE
