SPECIFICATION Spec
CONSTANTS
  Callbacks <- ThoroughCallbacks
  Codes <- SimCodes
  Statuses <- SimStatuses
  Values <- SimValuesThorough
  Messages <- SimMessages
  Servers <- GenServers
  Forms <- GenForms
  Vias <- DirectOnly
  XCodes <- QuickXCodes
  XStatuses <- QuickXStatuses
  XMessages <- QuickXMessages
  MaxServes = 12
  Deviation = "none"
INVARIANTS EmitHist SuccessIff EnvelopeWellFormed ErrorOwnCode UnmarshalableIsError ClientNeverConfuses ResponseOfCurrentValue AnswerIsCurrent
CHECK_DEADLOCK FALSE
