SPECIFICATION Spec
CONSTANTS
  Callbacks <- HistCallbacks
  Codes <- HistCodes
  Statuses <- HistStatuses
  Values <- HistValues
  Messages <- HistMessages
  Servers <- HistServers
  Forms <- McForms
  Vias <- McDirect
  MaxServes = 3
  Deviation = "none"
INVARIANTS TypeOk SuccessIff EnvelopeWellFormed ErrorOwnCode UnmarshalableIsError ClientNeverConfuses ResponseOfCurrentValue AnswerIsCurrent
CHECK_DEADLOCK FALSE
