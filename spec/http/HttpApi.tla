------------------------------ MODULE HttpApi ------------------------------
(* The JSON API convention of the oryx http package (C19): the decision      *)
(* table of one request, and the life of the handler object that answers     *)
(* many requests:                                                            *)
(*   Create     the application makes its answer ONCE: one of the library's  *)
(*              handlers, Data(value) or Error(err) where err is a system    *)
(*              error (int code), a complex error (code, message), an        *)
(*              application error (Code() int), or any other error, which    *)
(*              may carry its own HTTP status - either as the http.Handler   *)
(*              the library returns (form "handler": Data / Error /          *)
(*              CplxError, registered on a mux) or as a function of its own  *)
(*              that calls WriteData / WriteError / WriteCplxError (form     *)
(*              "write"); both are registered once and served many times     *)
(*   Mutate     the value handed to Data is a reference (map, pointer): the  *)
(*              application changes what is behind it between two requests;  *)
(*              the new content may be of any value class, also one that     *)
(*              cannot be marshalled, or another value of the same class     *)
(*              (every Mutate makes a new version of the content)            *)
(*   Arrive     a GET arrives, with or without a `callback` query parameter  *)
(*   Respond    the handler object answers it                                *)
(*   ClientRead the client half (ApiRequest) fetches the body and gives its  *)
(*              verdict                                                      *)
(*   NextRequest / Finish   the same object waits for the next request, up   *)
(*              to MaxServes                                                 *)
(* Every response is a function of the request and of the value behind the   *)
(* handler AT THE TIME OF THAT REQUEST (ResponseOfCurrentValue): nothing of  *)
(* an earlier request - its value, its outcome, its callback - survives.     *)
(* The module is shaped like the code path: Data -> envelope -> JsonHandler  *)
(* (marshal, then headers, then callback wrapping); Error -> dispatch on the *)
(* error kind -> JsonHandler or the plain-text answer; a marshal failure in  *)
(* JsonHandler re-enters Error with the marshal error.                       *)
(*                                                                           *)
(* What an error IS. The property speaks of system, complex, application and *)
(* plain errors; a Go error value can be several of these at once, or reach   *)
(* Error behind another value. An error answer is described by `kind` - the   *)
(* facets the application gave its error (Facets: the library's concrete      *)
(* types SystemComplexError / SystemError, a method Code() int, a method      *)
(* Status() int, in any feasible combination) - and by `via`, how the value   *)
(* handed to Error relates to it: itself ("direct"), a pointer to the         *)
(* library's value type, a struct embedding it, or a wrapper of the library's *)
(* errors package (Wrap / WithMessage / WithStack) whose Cause() it is. What   *)
(* counts is what the value handed over is to Go's type system (Seen): a      *)
(* wrapper, a pointer to SystemError and a struct embedding it have neither   *)
(* the concrete type nor Code()/Status() - they are plain errors - and an     *)
(* error that HAS its own code is answered with its code, whatever else it    *)
(* has (complex before system before Code() before Status()).                 *)
(*                                                                           *)
(* Abstractions. Error codes are decimal numerals (strings): the table only  *)
(* needs equality and the zero test, and codes beyond TLC's 32 bits are in   *)
(* the domain. A value is a *class* [name, k, marshalable, jtype]; the       *)
(* replayer concretises it, the specification fixes whether it can be        *)
(* marshalled and the JSON type it becomes. The text of a plain error is a   *)
(* class as well: free text, or text that happens to be a JSON object        *)
(* without a numeric `code` member.                                          *)
EXTENDS Naturals, Sequences

CONSTANTS
  Callbacks,   \* set of [present: BOOLEAN, name: STRING]; name = "" with present = TRUE is `?callback=`
  Codes,       \* non-zero error codes, decimal numerals
  Statuses,    \* HTTP statuses carried by plain errors implementing Status()
  Values,      \* value classes [name, k, marshalable, jtype]
  Messages,    \* text classes of error messages
  Servers,     \* configured values of the Server header
  Forms,       \* how the application holds its answer: subset of {"handler", "write"}
  Vias,        \* how the value handed to Error relates to the application's error: subset of AllVias
  MaxServes,   \* requests one handler object answers
  Deviation    \* "none" or the name of a wrong behaviour (non-vacuity runs)

VARIABLES
  pc, srv,
  obj,         \* the handler object: [made: what the application answered when it made it, form]
  cell,        \* value class now behind the reference handed to Data (NoValue for the error kinds)
  ver,         \* version of that content: the number of Mutate steps so far
  req,         \* the request being answered: its callback parameter
  app,         \* what the application's answer is for this request: obj.made with the value now in cell
  resp, verdict,
  hist         \* history: one record [cb, val, ver, resp, verdict] per request served by obj
vars == <<pc, srv, obj, cell, ver, req, app, resp, verdict, hist>>

Json       == "application/json"
JavaScript == "application/javascript"
Text       == "text/plain"
Pid        == "pid"          \* symbolic: the replayer's os.Getpid()

NoValue == [name |-> "-", k |-> 0, marshalable |-> TRUE, jtype |-> "null"]
NoCb    == [present |-> FALSE, name |-> ""]
None    == [kind |-> "none"]

\* ------------------------------------------------ what the application may answer
Kinds == {"data", "systemError", "complexError", "appError", "appErrorWithStatus", "plainError", "plainErrorWithStatus"}

\* the facets the application gave its error
Facets(kind) ==
  CASE kind = "systemError"          -> {"system"}             \* the library's SystemError (an int)
    [] kind = "complexError"         -> {"complex"}            \* the library's SystemComplexError {Code, Message}
    [] kind = "appError"             -> {"code"}               \* any type with Code() int
    [] kind = "appErrorWithStatus"   -> {"code", "status"}     \* ... that has Status() int as well
    [] kind = "plainError"           -> {}
    [] kind = "plainErrorWithStatus" -> {"status"}             \* any other type with Status() int
    [] OTHER                         -> {}
\* (SystemError and SystemComplexError are closed types: they cannot get further methods.)

Wrappers == {"wrap", "withMessage", "withStack"}       \* of the library's errors package: Error(), Cause(), Format() only
AllVias  == {"direct", "pointer", "embedded"} \cup Wrappers
ViasOf(kind) == IF kind \in {"systemError", "complexError"} THEN AllVias ELSE {"direct"} \cup Wrappers

\* val: the class of the value, ver: which version of the content behind the reference (0: as handed to Data)
AppVia(kind, via, code, status, msg, val) ==
  [kind |-> kind, via |-> via, code |-> code, status |-> status, msg |-> msg, val |-> val, ver |-> 0]
App(kind, code, status, msg, val) == AppVia(kind, "direct", code, status, msg, val)

AppResponses ==
       {App("data", "0", 0, "-", v) : v \in Values}
  \cup {AppVia("systemError", x, c, 0, "-", NoValue) : c \in Codes, x \in ViasOf("systemError") \cap Vias}
  \cup {AppVia("complexError", x, c, 0, m, NoValue) : c \in Codes, m \in Messages, x \in ViasOf("complexError") \cap Vias}
  \cup {AppVia("appError", x, c, 0, m, NoValue) : c \in Codes, m \in Messages, x \in ViasOf("appError") \cap Vias}
  \cup {AppVia("appErrorWithStatus", x, c, st, m, NoValue) :
           c \in Codes, st \in Statuses, m \in Messages, x \in ViasOf("appErrorWithStatus") \cap Vias}
  \cup {AppVia("plainError", x, "0", 0, m, NoValue) : m \in Messages, x \in ViasOf("plainError") \cap Vias}
  \cup {AppVia("plainErrorWithStatus", x, "0", st, m, NoValue) :
           st \in Statuses, m \in Messages, x \in ViasOf("plainErrorWithStatus") \cap Vias}

\* what the value handed to Error is to Go's type system
Seen(a) ==
  CASE a.via = "direct"   -> Facets(a.kind)
    [] a.via = "embedded" -> Facets(a.kind) \ {"system", "complex"}    \* promoted methods, but another concrete type
    [] OTHER              -> {}                                        \* pointer to the value type; wrapper

IsSuccessKind(a) == a.kind = "data" /\ a.val.marshalable
\* an error that has its own code / one that has not
IsCodedKind(a)   == a.kind # "data" /\ Seen(a) \cap {"system", "complex", "code"} # {}
IsPlainKind(a)   == a.kind # "data" /\ ~IsCodedKind(a)
OwnStatus(a)     == IF "status" \in Seen(a) THEN a.status ELSE 500

\* the class of the text Error() returns (it is the body of the plain answer)
TextOf(a) == IF a.kind \in {"systemError", "complexError"} \/ a.via \in {"wrap", "withMessage"} THEN "text" ELSE a.msg

\* ------------------------------------------------------------------ body shapes
Envelope(v, n)   == [t |-> "envelope", code |-> "0", server |-> Pid, data |-> v, ver |-> n, msg |-> "-"]
CodeOnly(c)      == [t |-> "code", code |-> c, server |-> "-", data |-> NoValue, ver |-> 0, msg |-> "-"]
CodeData(c, m)   == [t |-> "codedata", code |-> c, server |-> "-", data |-> NoValue, ver |-> 0, msg |-> m]
PlainText(m)     == [t |-> "text", code |-> "-", server |-> "-", data |-> NoValue, ver |-> 0, msg |-> m]
Empty            == [t |-> "empty", code |-> "-", server |-> "-", data |-> NoValue, ver |-> 0, msg |-> "-"]

CanMarshal(rv) == rv.t # "envelope" \/ rv.data.marshalable

Cb(r) == IF r.present THEN r.name ELSE ""

\* -------------------------------------------------------------------- handlers
\* an error as the dispatcher sees it: the facets of the value, its code / status / message, the text of Error()
Err(facets, code, status, msg, text) ==
  [facets |-> facets, code |-> code, status |-> status, msg |-> msg, text |-> text]
MarshalErr == Err({}, "0", 0, "-", "text")

RECURSIVE ErrorHandler(_, _, _)
\* jsonHandler: marshal first; only a marshalled body is ever written
JsonHandler(s, r, rv) ==
  IF ~CanMarshal(rv)
  THEN IF Deviation = "marshal-error-swallowed"
       THEN [status |-> 200, server |-> s, ctype |-> Json, wrap |-> "", body |-> Empty]
       ELSE ErrorHandler(s, r, MarshalErr)
  ELSE [status |-> 200, server |-> s,
        ctype  |-> IF Cb(r) # "" /\ Deviation # "callback-keeps-json-ctype" THEN JavaScript ELSE Json,
        wrap   |-> Cb(r),
        body   |-> rv]

\* Error: dispatch on what the error is, in this order
ErrorHandler(s, r, e) ==
  LET code == IF Deviation = "const-error-code" THEN "100" ELSE e.code IN
  IF "complex" \in e.facets THEN JsonHandler(s, r, CodeData(code, e.msg))
  ELSE IF "system" \in e.facets THEN JsonHandler(s, r, CodeOnly(code))
  ELSE IF "code" \in e.facets /\ ~(Deviation = "status-shadows-code" /\ "status" \in e.facets)
       THEN JsonHandler(s, r, CodeData(code, e.msg))
  ELSE [status |-> IF "status" \in e.facets /\ Deviation # "status-not-applied" THEN e.status ELSE 500,
        server |-> s, ctype |-> Text, wrap |-> "", body |-> PlainText(e.text)]

DataHandler(s, r, v, n) == JsonHandler(s, r, Envelope(v, n))

Handle(s, r, a) ==
  IF a.kind = "data" THEN DataHandler(s, r, a.val, a.ver)
  ELSE LET f == IF Deviation = "cause-dispatched" /\ a.via \in Wrappers THEN Facets(a.kind) ELSE Seen(a)
       IN  ErrorHandler(s, r, Err(f, a.code, a.status, a.msg, TextOf(a)))

\* ---------------------------------------------------------------- client half
\* What the bytes of the body are to a JSON reader: "notjson" | "object"; and whether the
\* object has a numeric member `code` (and which).
BodyIsJsonObject(rs) ==
  /\ rs.wrap = ""                                      \* cb(...) is JavaScript, not JSON
  /\ \/ rs.body.t \in {"envelope", "code", "codedata"}
     \/ rs.body.t = "text" /\ rs.body.msg \in {"jsonobj-nocode", "jsonobj-strcode"}
HasNumericCode(rs) == rs.body.t \in {"envelope", "code", "codedata"}

\* ok iff the body is a JSON object with numeric code = 0
ApiVerdict(rs) ==
  IF ~BodyIsJsonObject(rs) THEN "error"
  ELSE IF ~HasNumericCode(rs)
       THEN (IF Deviation = "client-missing-code-ok" THEN "ok" ELSE "error")
       ELSE IF rs.body.code = "0" \/ Deviation = "client-accepts-nonzero" THEN "ok" ELSE "error"
\* the code the client reports next to its verdict ("-": none)
ApiCode(rs) == IF BodyIsJsonObject(rs) /\ HasNumericCode(rs) THEN rs.body.code ELSE "-"

\* --------------------------------------------------------------- state machine
Init == /\ pc = "new" /\ srv \in Servers /\ obj = None /\ cell = NoValue /\ ver = 0
        /\ req = None /\ app = None /\ resp = None /\ verdict = "-" /\ hist = <<>>

Create(a, f) == /\ pc = "new"
                /\ obj' = [made |-> a, form |-> f] /\ cell' = a.val /\ pc' = "idle"
                /\ UNCHANGED <<srv, ver, req, app, resp, verdict, hist>>

\* between two requests (also before the first) the application changes what is behind the reference:
\* a value of another class or another value of the same class
Mutate(v) == /\ pc = "idle" /\ obj.made.kind = "data"
             /\ cell' = v /\ ver' = ver + 1 /\ pc' = "mutated"
             /\ UNCHANGED <<srv, obj, req, app, resp, verdict, hist>>

Arrive(cb) == /\ pc \in {"idle", "mutated"} /\ Len(hist) < MaxServes
              /\ req' = cb /\ pc' = "arrived"
              /\ UNCHANGED <<srv, obj, cell, ver, app, resp, verdict, hist>>

\* the application's answer as it stands now
Current == [obj.made EXCEPT !.val = cell, !.ver = ver]

Respond == /\ pc = "arrived"
           /\ app' = Current
           /\ resp' = IF Deviation = "first-response-cached" /\ obj.form = "handler" /\ Len(hist) > 0
                      THEN hist[1].resp                \* built at the first request, replayed ever after
                      ELSE Handle(srv, req, Current)
           /\ pc' = "responded"
           /\ UNCHANGED <<srv, obj, cell, ver, req, verdict, hist>>

ClientRead == /\ pc = "responded"
              /\ verdict' = ApiVerdict(resp) /\ pc' = "read"
              /\ hist' = Append(hist, [cb |-> req, val |-> cell, ver |-> ver, resp |-> resp, verdict |-> ApiVerdict(resp)])
              /\ UNCHANGED <<srv, obj, cell, ver, req, app, resp>>

NextRequest == /\ pc = "read" /\ Len(hist) < MaxServes
               /\ pc' = "idle" /\ req' = None /\ app' = None /\ resp' = None /\ verdict' = "-"
               /\ UNCHANGED <<srv, obj, cell, ver, hist>>

Finish == /\ pc = "read" /\ Len(hist) = MaxServes
          /\ pc' = "done"
          /\ UNCHANGED <<srv, obj, cell, ver, req, app, resp, verdict, hist>>

Next == \/ \E a \in AppResponses, f \in Forms : Create(a, f)
        \/ \E v \in Values : Mutate(v)
        \/ \E cb \in Callbacks : Arrive(cb)
        \/ Respond \/ ClientRead \/ NextRequest \/ Finish
Spec == Init /\ [][Next]_vars

\* ------------------------------------------------------------------ properties
Responded == pc \in {"responded", "read", "done"}

\* a response *is* a success iff it is 200 with the envelope of code 0
IsSuccessResp(rs) == rs.status = 200 /\ rs.body.t = "envelope" /\ rs.body.code = "0"

\* The clauses of the property for ONE exchange: server header s, request r, application answer a, response rs.
\* success iff the application answered data with a marshalable value
SuccessIffOf(rs, a) == IsSuccessResp(rs) <=> IsSuccessKind(a)

\* the success answer is the well-formed envelope, wrapped iff a callback was named
EnvelopeWellFormedOf(s, r, a, rs) ==
  IsSuccessKind(a) =>
     /\ rs.status = 200 /\ rs.server = s
     /\ rs.body = Envelope(a.val, a.ver)               \* the value as it is now, not an earlier version of it
     /\ rs.wrap = Cb(r)
     /\ rs.ctype = (IF Cb(r) = "" THEN Json ELSE JavaScript)

\* errors answer with their own code (in the JSON body) or their own status (default 500)
ErrorOwnCodeOf(a, rs) ==
     /\ IsCodedKind(a) => (rs.body.t \in {"code", "codedata"} /\ rs.body.code = a.code /\ rs.body.code # "0")
     /\ IsPlainKind(a) => rs.status = OwnStatus(a)

\* a value that cannot be marshalled yields an error response, never 200 / a partial body
UnmarshalableIsErrorOf(a, rs) ==
  (a.kind = "data" /\ ~a.val.marshalable) =>
     /\ rs.status >= 400
     /\ rs.body.t = "text"

\* the client never confuses success and failure
ClientNeverConfusesOf(r, a, vd) ==
     /\ vd = "ok" => IsSuccessKind(a)
     /\ (IsSuccessKind(a) /\ Cb(r) = "") => vd = "ok"
     /\ ~IsSuccessKind(a) => vd = "error"

SuccessIff           == Responded => SuccessIffOf(resp, app)
EnvelopeWellFormed   == Responded => EnvelopeWellFormedOf(srv, req, app, resp)
ErrorOwnCode         == Responded => ErrorOwnCodeOf(app, resp)
UnmarshalableIsError == Responded => UnmarshalableIsErrorOf(app, resp)
ClientNeverConfuses  == pc \in {"read", "done"} => ClientNeverConfusesOf(req, app, verdict)

\* Every request a handler object ever served was answered by the clauses above for the value that was behind the
\* object at that request and for that request's callback - whatever it served before.
AnswerAt(i) == [obj.made EXCEPT !.val = hist[i].val, !.ver = hist[i].ver]
ResponseOfCurrentValue ==
  \A i \in DOMAIN hist :
     LET a == AnswerAt(i)  rs == hist[i].resp  r == hist[i].cb IN
       /\ SuccessIffOf(rs, a)
       /\ EnvelopeWellFormedOf(srv, r, a, rs)
       /\ ErrorOwnCodeOf(a, rs)
       /\ UnmarshalableIsErrorOf(a, rs)
       /\ ClientNeverConfusesOf(r, a, hist[i].verdict)
\* the answer judged at a request is the one for the value behind the object now
AnswerIsCurrent == Responded => (app = Current /\ (obj.made.kind # "data" => (cell = NoValue /\ ver = 0)))

TypeOk ==
  /\ pc \in {"new", "idle", "mutated", "arrived", "responded", "read", "done"}
  /\ verdict \in {"-", "ok", "error"}
  /\ Len(hist) <= MaxServes /\ ver \in 0..MaxServes
  /\ pc # "new" => (obj.form \in Forms /\ obj.made \in AppResponses)
  /\ Responded => resp.status \in {200, 500} \cup Statuses
=============================================================================
