------------------------------ MODULE HttpApi ------------------------------
(* The JSON API convention of the oryx http package (C19), as the decision   *)
(* table of one request:                                                     *)
(*   Arrive     a GET arrives, with or without a `callback` query parameter  *)
(*   Respond    the application answers it with one of the library's         *)
(*              handlers: Data(value) or Error(err) where err is a system    *)
(*              error (int code), a complex error (code, message), an        *)
(*              application error (Code() int), or any other error, which    *)
(*              may carry its own HTTP status                                *)
(*   ClientRead the client half (ApiRequest) fetches the body and gives its  *)
(*              verdict                                                      *)
(* The module is shaped like the code path: Data -> envelope -> JsonHandler  *)
(* (marshal, then headers, then callback wrapping); Error -> dispatch on the *)
(* error kind -> JsonHandler or the plain-text answer; a marshal failure in  *)
(* JsonHandler re-enters Error with the marshal error.                       *)
(*                                                                           *)
(* Abstractions. Error codes are decimal numerals (strings): the table only  *)
(* needs equality and the zero test, and codes beyond TLC's 32 bits are in   *)
(* the domain. A value is a *class* [name, k, marshalable, jtype]; the       *)
(* replayer concretises it, the specification fixes whether it can be        *)
(* marshalled and the JSON type it becomes. The text of a plain error is a   *)
(* class as well: free text, or text that happens to be a JSON object        *)
(* without a numeric `code` member.                                          *)
EXTENDS Naturals, Sequences

CONSTANTS
  Callbacks,   \* set of [present: BOOLEAN, name: STRING]; name = "" with present = TRUE is `?callback=`
  Codes,       \* non-zero error codes, decimal numerals
  Statuses,    \* HTTP statuses carried by plain errors implementing Status()
  Values,      \* value classes [name, k, marshalable, jtype]
  Messages,    \* text classes of error messages
  Servers,     \* configured values of the Server header
  Deviation    \* "none" or the name of a wrong behaviour (non-vacuity runs)

VARIABLES pc, srv, req, app, resp, verdict
vars == <<pc, srv, req, app, resp, verdict>>

Json       == "application/json"
JavaScript == "application/javascript"
Text       == "text/plain"
Pid        == "pid"          \* symbolic: the replayer's os.Getpid()

NoValue == [name |-> "-", k |-> 0, marshalable |-> TRUE, jtype |-> "null"]
NoCb    == [present |-> FALSE, name |-> ""]
None    == [kind |-> "none"]

\* ------------------------------------------------ what the application may answer
Kinds == {"data", "systemError", "complexError", "appError", "plainError", "plainErrorWithStatus"}

App(kind, code, status, msg, val) == [kind |-> kind, code |-> code, status |-> status, msg |-> msg, val |-> val]

AppResponses ==
       {App("data", "0", 0, "-", v) : v \in Values}
  \cup {App("systemError", c, 0, "-", NoValue) : c \in Codes}
  \cup {App("complexError", c, 0, m, NoValue) : c \in Codes, m \in Messages}
  \cup {App("appError", c, 0, m, NoValue) : c \in Codes, m \in Messages}
  \cup {App("plainError", "0", 0, m, NoValue) : m \in Messages}
  \cup {App("plainErrorWithStatus", "0", s, m, NoValue) : s \in Statuses, m \in Messages}

IsSuccessKind(a) == a.kind = "data" /\ a.val.marshalable
IsCodedKind(a)   == a.kind \in {"systemError", "complexError", "appError"}
IsPlainKind(a)   == a.kind \in {"plainError", "plainErrorWithStatus"}

\* ------------------------------------------------------------------ body shapes
Envelope(v)      == [t |-> "envelope", code |-> "0", server |-> Pid, data |-> v, msg |-> "-"]
CodeOnly(c)      == [t |-> "code", code |-> c, server |-> "-", data |-> NoValue, msg |-> "-"]
CodeData(c, m)   == [t |-> "codedata", code |-> c, server |-> "-", data |-> NoValue, msg |-> m]
PlainText(m)     == [t |-> "text", code |-> "-", server |-> "-", data |-> NoValue, msg |-> m]
Empty            == [t |-> "empty", code |-> "-", server |-> "-", data |-> NoValue, msg |-> "-"]

CanMarshal(rv) == rv.t # "envelope" \/ rv.data.marshalable

Cb(r) == IF r.present THEN r.name ELSE ""

\* -------------------------------------------------------------------- handlers
\* an error as the dispatcher sees it
Err(kind, code, hasStatus, status, msg) ==
  [kind |-> kind, code |-> code, hasStatus |-> hasStatus, status |-> status, msg |-> msg]
MarshalErr == Err("plain", "0", FALSE, 0, "text")

RECURSIVE ErrorHandler(_, _, _)
\* jsonHandler: marshal first; only a marshalled body is ever written
JsonHandler(s, r, rv) ==
  IF ~CanMarshal(rv)
  THEN IF Deviation = "marshal-error-swallowed"
       THEN [status |-> 200, server |-> s, ctype |-> Json, wrap |-> "", body |-> Empty]
       ELSE ErrorHandler(s, r, MarshalErr)
  ELSE [status |-> 200, server |-> s,
        ctype  |-> IF Cb(r) # "" /\ Deviation # "callback-keeps-json-ctype" THEN JavaScript ELSE Json,
        wrap   |-> Cb(r),
        body   |-> rv]

\* Error: dispatch on the kind of the error
ErrorHandler(s, r, e) ==
  LET code == IF Deviation = "const-error-code" THEN "100" ELSE e.code IN
  CASE e.kind = "complex" -> JsonHandler(s, r, CodeData(code, e.msg))
    [] e.kind = "system"  -> JsonHandler(s, r, CodeOnly(code))
    [] e.kind = "app"     -> JsonHandler(s, r, CodeData(code, e.msg))
    [] OTHER              ->
         [status |-> IF e.hasStatus /\ Deviation # "status-not-applied" THEN e.status ELSE 500,
          server |-> s, ctype |-> Text, wrap |-> "", body |-> PlainText(e.msg)]

DataHandler(s, r, v) == JsonHandler(s, r, Envelope(v))

Handle(s, r, a) ==
  CASE a.kind = "data"                 -> DataHandler(s, r, a.val)
    [] a.kind = "systemError"          -> ErrorHandler(s, r, Err("system", a.code, FALSE, 0, "-"))
    [] a.kind = "complexError"         -> ErrorHandler(s, r, Err("complex", a.code, FALSE, 0, a.msg))
    [] a.kind = "appError"             -> ErrorHandler(s, r, Err("app", a.code, FALSE, 0, a.msg))
    [] a.kind = "plainError"           -> ErrorHandler(s, r, Err("plain", "0", FALSE, 0, a.msg))
    [] a.kind = "plainErrorWithStatus" -> ErrorHandler(s, r, Err("plain", "0", TRUE, a.status, a.msg))

\* ---------------------------------------------------------------- client half
\* What the bytes of the body are to a JSON reader: "notjson" | "object"; and whether the
\* object has a numeric member `code` (and which).
BodyIsJsonObject(rs) ==
  /\ rs.wrap = ""                                      \* cb(...) is JavaScript, not JSON
  /\ \/ rs.body.t \in {"envelope", "code", "codedata"}
     \/ rs.body.t = "text" /\ rs.body.msg \in {"jsonobj-nocode", "jsonobj-strcode"}
HasNumericCode(rs) == rs.body.t \in {"envelope", "code", "codedata"}

\* ok iff the body is a JSON object with numeric code = 0
ApiVerdict(rs) ==
  IF ~BodyIsJsonObject(rs) THEN "error"
  ELSE IF ~HasNumericCode(rs)
       THEN (IF Deviation = "client-missing-code-ok" THEN "ok" ELSE "error")
       ELSE IF rs.body.code = "0" \/ Deviation = "client-accepts-nonzero" THEN "ok" ELSE "error"
\* the code the client reports next to its verdict ("-": none)
ApiCode(rs) == IF BodyIsJsonObject(rs) /\ HasNumericCode(rs) THEN rs.body.code ELSE "-"

\* --------------------------------------------------------------- state machine
Init == /\ pc = "idle" /\ srv \in Servers
        /\ req = None /\ app = None /\ resp = None /\ verdict = "-"

Arrive(cb) == /\ pc = "idle"
              /\ req' = cb /\ pc' = "arrived"
              /\ UNCHANGED <<srv, app, resp, verdict>>

Respond(a) == /\ pc = "arrived"
              /\ app' = a /\ resp' = Handle(srv, req, a) /\ pc' = "responded"
              /\ UNCHANGED <<srv, req, verdict>>

ClientRead == /\ pc = "responded"
              /\ verdict' = ApiVerdict(resp) /\ pc' = "read"
              /\ UNCHANGED <<srv, req, app, resp>>

Next == (\E cb \in Callbacks : Arrive(cb)) \/ (\E a \in AppResponses : Respond(a)) \/ ClientRead
Spec == Init /\ [][Next]_vars

\* ------------------------------------------------------------------ properties
Responded == pc \in {"responded", "read"}

\* a response *is* a success iff it is 200 with the envelope of code 0
IsSuccessResp(rs) == rs.status = 200 /\ rs.body.t = "envelope" /\ rs.body.code = "0"

\* success iff the application answered data with a marshalable value
SuccessIff == Responded => (IsSuccessResp(resp) <=> IsSuccessKind(app))

\* the success answer is the well-formed envelope, wrapped iff a callback was named
EnvelopeWellFormed ==
  (Responded /\ IsSuccessKind(app)) =>
     /\ resp.status = 200 /\ resp.server = srv
     /\ resp.body = Envelope(app.val)
     /\ resp.wrap = Cb(req)
     /\ resp.ctype = (IF Cb(req) = "" THEN Json ELSE JavaScript)

\* errors answer with their own code (in the JSON body) or their own status (default 500)
ErrorOwnCode ==
  Responded =>
     /\ IsCodedKind(app) => (resp.body.t \in {"code", "codedata"} /\ resp.body.code = app.code /\ resp.body.code # "0")
     /\ app.kind = "plainError" => resp.status = 500
     /\ app.kind = "plainErrorWithStatus" => resp.status = app.status

\* a value that cannot be marshalled yields an error response, never 200 / a partial body
UnmarshalableIsError ==
  (Responded /\ app.kind = "data" /\ ~app.val.marshalable) =>
     /\ resp.status >= 400
     /\ resp.body.t = "text"

\* the client never confuses success and failure
ClientNeverConfuses ==
  pc = "read" =>
     /\ verdict = "ok" => IsSuccessKind(app)
     /\ (IsSuccessKind(app) /\ Cb(req) = "") => verdict = "ok"
     /\ ~IsSuccessKind(app) => verdict = "error"

TypeOk ==
  /\ pc \in {"idle", "arrived", "responded", "read"}
  /\ verdict \in {"-", "ok", "error"}
  /\ Responded => resp.status \in {200, 500} \cup Statuses
=============================================================================
