------------------------------ MODULE HttpApi ------------------------------
(* The JSON API convention of the oryx http package (C19): the decision      *)
(* table of one request, and the life of the handler object that answers     *)
(* many requests:                                                            *)
(*   Create     the application makes its answer ONCE: one of the library's  *)
(*              handlers, Data(value) or Error(err) where err is a system    *)
(*              error (int code), a complex error (code, message), an        *)
(*              application error (Code() int), or any other error, which    *)
(*              may carry its own HTTP status - either as the http.Handler   *)
(*              the library returns (form "handler": Data / Error /          *)
(*              CplxError, registered on a mux) or as a function of its own  *)
(*              that calls WriteData / WriteError / WriteCplxError (form     *)
(*              "write"); both are registered once and served many times     *)
(*   Mutate     the value handed to Data is a reference (map, pointer): the  *)
(*              application changes what is behind it between two requests;  *)
(*              the new content may be of any value class, also one that     *)
(*              cannot be marshalled, or another value of the same class     *)
(*              (every Mutate makes a new version of the content)            *)
(*   Arrive     a GET arrives, with or without a `callback` query parameter  *)
(*   Respond    the handler object answers it                                *)
(*   ClientRead the client half (ApiRequest) fetches the body and gives its  *)
(*              verdict                                                      *)
(*   NextRequest / Finish   the same object waits for the next request, up   *)
(*              to MaxServes                                                 *)
(* Every response is a function of the request and of the value behind the   *)
(* handler AT THE TIME OF THAT REQUEST (ResponseOfCurrentValue): nothing of  *)
(* an earlier request - its value, its outcome, its callback - survives.     *)
(* The module is shaped like the code path: Data -> envelope -> JsonHandler  *)
(* (marshal, then headers, then callback wrapping); Error -> dispatch on the *)
(* error kind -> JsonHandler or the plain-text answer; a marshal failure in  *)
(* JsonHandler re-enters Error with the marshal error.                       *)
(*                                                                           *)
(* Abstractions. Error codes are decimal numerals (strings): the table only  *)
(* needs equality and the zero test, and codes beyond TLC's 32 bits are in   *)
(* the domain. A value is a *class* [name, k, marshalable, jtype]; the       *)
(* replayer concretises it, the specification fixes whether it can be        *)
(* marshalled and the JSON type it becomes. The text of a plain error is a   *)
(* class as well: free text, or text that happens to be a JSON object        *)
(* without a numeric `code` member.                                          *)
EXTENDS Naturals, Sequences

CONSTANTS
  Callbacks,   \* set of [present: BOOLEAN, name: STRING]; name = "" with present = TRUE is `?callback=`
  Codes,       \* non-zero error codes, decimal numerals
  Statuses,    \* HTTP statuses carried by plain errors implementing Status()
  Values,      \* value classes [name, k, marshalable, jtype]
  Messages,    \* text classes of error messages
  Servers,     \* configured values of the Server header
  Forms,       \* how the application holds its answer: subset of {"handler", "write"}
  MaxServes,   \* requests one handler object answers
  Deviation    \* "none" or the name of a wrong behaviour (non-vacuity runs)

VARIABLES
  pc, srv,
  obj,         \* the handler object: [made: what the application answered when it made it, form]
  cell,        \* value class now behind the reference handed to Data (NoValue for the error kinds)
  ver,         \* version of that content: the number of Mutate steps so far
  req,         \* the request being answered: its callback parameter
  app,         \* what the application's answer is for this request: obj.made with the value now in cell
  resp, verdict,
  hist         \* history: one record [cb, val, ver, resp, verdict] per request served by obj
vars == <<pc, srv, obj, cell, ver, req, app, resp, verdict, hist>>

Json       == "application/json"
JavaScript == "application/javascript"
Text       == "text/plain"
Pid        == "pid"          \* symbolic: the replayer's os.Getpid()

NoValue == [name |-> "-", k |-> 0, marshalable |-> TRUE, jtype |-> "null"]
NoCb    == [present |-> FALSE, name |-> ""]
None    == [kind |-> "none"]

\* ------------------------------------------------ what the application may answer
Kinds == {"data", "systemError", "complexError", "appError", "plainError", "plainErrorWithStatus"}

\* val: the class of the value, ver: which version of the content behind the reference (0: as handed to Data)
App(kind, code, status, msg, val) == [kind |-> kind, code |-> code, status |-> status, msg |-> msg, val |-> val, ver |-> 0]

AppResponses ==
       {App("data", "0", 0, "-", v) : v \in Values}
  \cup {App("systemError", c, 0, "-", NoValue) : c \in Codes}
  \cup {App("complexError", c, 0, m, NoValue) : c \in Codes, m \in Messages}
  \cup {App("appError", c, 0, m, NoValue) : c \in Codes, m \in Messages}
  \cup {App("plainError", "0", 0, m, NoValue) : m \in Messages}
  \cup {App("plainErrorWithStatus", "0", s, m, NoValue) : s \in Statuses, m \in Messages}

IsSuccessKind(a) == a.kind = "data" /\ a.val.marshalable
IsCodedKind(a)   == a.kind \in {"systemError", "complexError", "appError"}
IsPlainKind(a)   == a.kind \in {"plainError", "plainErrorWithStatus"}

\* ------------------------------------------------------------------ body shapes
Envelope(v, n)   == [t |-> "envelope", code |-> "0", server |-> Pid, data |-> v, ver |-> n, msg |-> "-"]
CodeOnly(c)      == [t |-> "code", code |-> c, server |-> "-", data |-> NoValue, ver |-> 0, msg |-> "-"]
CodeData(c, m)   == [t |-> "codedata", code |-> c, server |-> "-", data |-> NoValue, ver |-> 0, msg |-> m]
PlainText(m)     == [t |-> "text", code |-> "-", server |-> "-", data |-> NoValue, ver |-> 0, msg |-> m]
Empty            == [t |-> "empty", code |-> "-", server |-> "-", data |-> NoValue, ver |-> 0, msg |-> "-"]

CanMarshal(rv) == rv.t # "envelope" \/ rv.data.marshalable

Cb(r) == IF r.present THEN r.name ELSE ""

\* -------------------------------------------------------------------- handlers
\* an error as the dispatcher sees it
Err(kind, code, hasStatus, status, msg) ==
  [kind |-> kind, code |-> code, hasStatus |-> hasStatus, status |-> status, msg |-> msg]
MarshalErr == Err("plain", "0", FALSE, 0, "text")

RECURSIVE ErrorHandler(_, _, _)
\* jsonHandler: marshal first; only a marshalled body is ever written
JsonHandler(s, r, rv) ==
  IF ~CanMarshal(rv)
  THEN IF Deviation = "marshal-error-swallowed"
       THEN [status |-> 200, server |-> s, ctype |-> Json, wrap |-> "", body |-> Empty]
       ELSE ErrorHandler(s, r, MarshalErr)
  ELSE [status |-> 200, server |-> s,
        ctype  |-> IF Cb(r) # "" /\ Deviation # "callback-keeps-json-ctype" THEN JavaScript ELSE Json,
        wrap   |-> Cb(r),
        body   |-> rv]

\* Error: dispatch on the kind of the error
ErrorHandler(s, r, e) ==
  LET code == IF Deviation = "const-error-code" THEN "100" ELSE e.code IN
  CASE e.kind = "complex" -> JsonHandler(s, r, CodeData(code, e.msg))
    [] e.kind = "system"  -> JsonHandler(s, r, CodeOnly(code))
    [] e.kind = "app"     -> JsonHandler(s, r, CodeData(code, e.msg))
    [] OTHER              ->
         [status |-> IF e.hasStatus /\ Deviation # "status-not-applied" THEN e.status ELSE 500,
          server |-> s, ctype |-> Text, wrap |-> "", body |-> PlainText(e.msg)]

DataHandler(s, r, v, n) == JsonHandler(s, r, Envelope(v, n))

Handle(s, r, a) ==
  CASE a.kind = "data"                 -> DataHandler(s, r, a.val, a.ver)
    [] a.kind = "systemError"          -> ErrorHandler(s, r, Err("system", a.code, FALSE, 0, "-"))
    [] a.kind = "complexError"         -> ErrorHandler(s, r, Err("complex", a.code, FALSE, 0, a.msg))
    [] a.kind = "appError"             -> ErrorHandler(s, r, Err("app", a.code, FALSE, 0, a.msg))
    [] a.kind = "plainError"           -> ErrorHandler(s, r, Err("plain", "0", FALSE, 0, a.msg))
    [] a.kind = "plainErrorWithStatus" -> ErrorHandler(s, r, Err("plain", "0", TRUE, a.status, a.msg))

\* ---------------------------------------------------------------- client half
\* What the bytes of the body are to a JSON reader: "notjson" | "object"; and whether the
\* object has a numeric member `code` (and which).
BodyIsJsonObject(rs) ==
  /\ rs.wrap = ""                                      \* cb(...) is JavaScript, not JSON
  /\ \/ rs.body.t \in {"envelope", "code", "codedata"}
     \/ rs.body.t = "text" /\ rs.body.msg \in {"jsonobj-nocode", "jsonobj-strcode"}
HasNumericCode(rs) == rs.body.t \in {"envelope", "code", "codedata"}

\* ok iff the body is a JSON object with numeric code = 0
ApiVerdict(rs) ==
  IF ~BodyIsJsonObject(rs) THEN "error"
  ELSE IF ~HasNumericCode(rs)
       THEN (IF Deviation = "client-missing-code-ok" THEN "ok" ELSE "error")
       ELSE IF rs.body.code = "0" \/ Deviation = "client-accepts-nonzero" THEN "ok" ELSE "error"
\* the code the client reports next to its verdict ("-": none)
ApiCode(rs) == IF BodyIsJsonObject(rs) /\ HasNumericCode(rs) THEN rs.body.code ELSE "-"

\* --------------------------------------------------------------- state machine
Init == /\ pc = "new" /\ srv \in Servers /\ obj = None /\ cell = NoValue /\ ver = 0
        /\ req = None /\ app = None /\ resp = None /\ verdict = "-" /\ hist = <<>>

Create(a, f) == /\ pc = "new"
                /\ obj' = [made |-> a, form |-> f] /\ cell' = a.val /\ pc' = "idle"
                /\ UNCHANGED <<srv, ver, req, app, resp, verdict, hist>>

\* between two requests (also before the first) the application changes what is behind the reference:
\* a value of another class or another value of the same class
Mutate(v) == /\ pc = "idle" /\ obj.made.kind = "data"
             /\ cell' = v /\ ver' = ver + 1 /\ pc' = "mutated"
             /\ UNCHANGED <<srv, obj, req, app, resp, verdict, hist>>

Arrive(cb) == /\ pc \in {"idle", "mutated"} /\ Len(hist) < MaxServes
              /\ req' = cb /\ pc' = "arrived"
              /\ UNCHANGED <<srv, obj, cell, ver, app, resp, verdict, hist>>

\* the application's answer as it stands now
Current == [obj.made EXCEPT !.val = cell, !.ver = ver]

Respond == /\ pc = "arrived"
           /\ app' = Current
           /\ resp' = IF Deviation = "first-response-cached" /\ obj.form = "handler" /\ Len(hist) > 0
                      THEN hist[1].resp                \* built at the first request, replayed ever after
                      ELSE Handle(srv, req, Current)
           /\ pc' = "responded"
           /\ UNCHANGED <<srv, obj, cell, ver, req, verdict, hist>>

ClientRead == /\ pc = "responded"
              /\ verdict' = ApiVerdict(resp) /\ pc' = "read"
              /\ hist' = Append(hist, [cb |-> req, val |-> cell, ver |-> ver, resp |-> resp, verdict |-> ApiVerdict(resp)])
              /\ UNCHANGED <<srv, obj, cell, ver, req, app, resp>>

NextRequest == /\ pc = "read" /\ Len(hist) < MaxServes
               /\ pc' = "idle" /\ req' = None /\ app' = None /\ resp' = None /\ verdict' = "-"
               /\ UNCHANGED <<srv, obj, cell, ver, hist>>

Finish == /\ pc = "read" /\ Len(hist) = MaxServes
          /\ pc' = "done"
          /\ UNCHANGED <<srv, obj, cell, ver, req, app, resp, verdict, hist>>

Next == \/ \E a \in AppResponses, f \in Forms : Create(a, f)
        \/ \E v \in Values : Mutate(v)
        \/ \E cb \in Callbacks : Arrive(cb)
        \/ Respond \/ ClientRead \/ NextRequest \/ Finish
Spec == Init /\ [][Next]_vars

\* ------------------------------------------------------------------ properties
Responded == pc \in {"responded", "read", "done"}

\* a response *is* a success iff it is 200 with the envelope of code 0
IsSuccessResp(rs) == rs.status = 200 /\ rs.body.t = "envelope" /\ rs.body.code = "0"

\* The clauses of the property for ONE exchange: server header s, request r, application answer a, response rs.
\* success iff the application answered data with a marshalable value
SuccessIffOf(rs, a) == IsSuccessResp(rs) <=> IsSuccessKind(a)

\* the success answer is the well-formed envelope, wrapped iff a callback was named
EnvelopeWellFormedOf(s, r, a, rs) ==
  IsSuccessKind(a) =>
     /\ rs.status = 200 /\ rs.server = s
     /\ rs.body = Envelope(a.val, a.ver)               \* the value as it is now, not an earlier version of it
     /\ rs.wrap = Cb(r)
     /\ rs.ctype = (IF Cb(r) = "" THEN Json ELSE JavaScript)

\* errors answer with their own code (in the JSON body) or their own status (default 500)
ErrorOwnCodeOf(a, rs) ==
     /\ IsCodedKind(a) => (rs.body.t \in {"code", "codedata"} /\ rs.body.code = a.code /\ rs.body.code # "0")
     /\ a.kind = "plainError" => rs.status = 500
     /\ a.kind = "plainErrorWithStatus" => rs.status = a.status

\* a value that cannot be marshalled yields an error response, never 200 / a partial body
UnmarshalableIsErrorOf(a, rs) ==
  (a.kind = "data" /\ ~a.val.marshalable) =>
     /\ rs.status >= 400
     /\ rs.body.t = "text"

\* the client never confuses success and failure
ClientNeverConfusesOf(r, a, vd) ==
     /\ vd = "ok" => IsSuccessKind(a)
     /\ (IsSuccessKind(a) /\ Cb(r) = "") => vd = "ok"
     /\ ~IsSuccessKind(a) => vd = "error"

SuccessIff           == Responded => SuccessIffOf(resp, app)
EnvelopeWellFormed   == Responded => EnvelopeWellFormedOf(srv, req, app, resp)
ErrorOwnCode         == Responded => ErrorOwnCodeOf(app, resp)
UnmarshalableIsError == Responded => UnmarshalableIsErrorOf(app, resp)
ClientNeverConfuses  == pc \in {"read", "done"} => ClientNeverConfusesOf(req, app, verdict)

\* Every request a handler object ever served was answered by the clauses above for the value that was behind the
\* object at that request and for that request's callback - whatever it served before.
AnswerAt(i) == [obj.made EXCEPT !.val = hist[i].val, !.ver = hist[i].ver]
ResponseOfCurrentValue ==
  \A i \in DOMAIN hist :
     LET a == AnswerAt(i)  rs == hist[i].resp  r == hist[i].cb IN
       /\ SuccessIffOf(rs, a)
       /\ EnvelopeWellFormedOf(srv, r, a, rs)
       /\ ErrorOwnCodeOf(a, rs)
       /\ UnmarshalableIsErrorOf(a, rs)
       /\ ClientNeverConfusesOf(r, a, hist[i].verdict)
\* the answer judged at a request is the one for the value behind the object now
AnswerIsCurrent == Responded => (app = Current /\ (obj.made.kind # "data" => (cell = NoValue /\ ver = 0)))

TypeOk ==
  /\ pc \in {"new", "idle", "mutated", "arrived", "responded", "read", "done"}
  /\ verdict \in {"-", "ok", "error"}
  /\ Len(hist) <= MaxServes /\ ver \in 0..MaxServes
  /\ pc # "new" => (obj.form \in Forms /\ obj.made \in AppResponses)
  /\ Responded => resp.status \in {200, 500} \cup Statuses
=============================================================================
