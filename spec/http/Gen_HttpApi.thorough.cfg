INIT GenInit
NEXT GenNext
CONSTANTS
  Callbacks <- ThoroughCallbacks
  Codes <- ThoroughCodes
  Statuses <- ThoroughStatuses
  Values <- ThoroughValues
  Messages <- GenMessages
  Servers <- GenServers
  Deviation = "none"
INVARIANTS Emit SuccessIff EnvelopeWellFormed ErrorOwnCode UnmarshalableIsError ClientNeverConfuses
CHECK_DEADLOCK FALSE
