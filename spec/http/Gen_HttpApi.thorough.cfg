INIT GenInit
NEXT GenNext
CONSTANTS
  Callbacks <- ThoroughCallbacks
  Codes <- ThoroughCodes
  Statuses <- ThoroughStatuses
  Values <- ThoroughValues
  Messages <- GenMessages
  Servers <- GenServers
  Forms <- GenForms
  MaxServes = 1
  Deviation = "none"
INVARIANTS Emit SuccessIff EnvelopeWellFormed ErrorOwnCode UnmarshalableIsError ClientNeverConfuses ResponseOfCurrentValue
CHECK_DEADLOCK FALSE
