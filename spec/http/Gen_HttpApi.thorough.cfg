INIT GenInit
NEXT GenNext
CONSTANTS
  Callbacks <- ThoroughCallbacks
  Codes <- ThoroughCodes
  Statuses <- ThoroughStatuses
  Values <- ThoroughValues
  Messages <- GenMessages
  Servers <- GenServers
  Forms <- GenForms
  Vias <- GenVias
  XCodes <- ThoroughXCodes
  XStatuses <- ThoroughXStatuses
  XMessages <- ThoroughXMessages
  MaxServes = 1
  Deviation = "none"
INVARIANTS Emit SuccessIff EnvelopeWellFormed ErrorOwnCode UnmarshalableIsError ClientNeverConfuses ResponseOfCurrentValue
CHECK_DEADLOCK FALSE
