"""C13: WebSocket messages arrive intact, in order, on an RFC 6455-valid wire
(spec/wswire: WsWire = validator of recorded frame streams, WsWriterCfg = configuration matrix,
WsPeer = conformant foreign sender + implementation-shaped receiver on symbolic octets (mask state, decompress flag,
read buffer), PreparedCache = per-key cache of a prepared message under a concurrent broadcast, WsHandshake = opening
handshake table)."""
import copy
import json
import os
import re
import shutil
from concurrent.futures import ThreadPoolExecutor

from lib import vlib

SUB = "wswire"
DEVS = ["rsv1-on-continuation", "rsv1-missing", "rsv1-uncompressed", "len16-for-125", "len64-for-65535",
        "client-unmasked", "server-masked", "fin-on-every-frame", "fin-never", "interleaved-message",
        "control-fragmented", "control-126", "control-rsv1", "deflate-tail-kept", "payload-truncated", "rsv3-set"]
SELFTEST_BASE = 9000000      # session numbers of the corrupted copies (binding self-test)
HS_BASE = 1000000            # session numbers of the handshake stage
PEER_DEVS = ["mask-offset-per-message", "mask-key-kept", "mask-pos-per-read", "decompress-sticky"]     # violate Intact
PM_BASE = 2000000            # session numbers of the prepared-message stage
TLC_PAR = int(os.environ.get("VERIF_PAR", "4"))      # TLC runs / replayers side by side
TLC_HEAP = ["-Xmx2g"]


def _dev_cfg(dev):
    return ('SPECIFICATION Spec\nCONSTANTS\n  Dev = "%s"\n  MsgLists <- McDevMsgLists\n  FragLens <- McFragLens\n'
            '  CtlLens = {0, 125}\n  MaxCtl = 1\n  MaxFrags = 3\nINVARIANTS NoReject\nCHECK_DEADLOCK FALSE\n' % dev)


# ------------------------------------------------------------------ traces
def _sessions(path):
    """[(session number, [line dicts])] of a trace file."""
    out = []
    for l in open(path):
        if not l.strip():
            continue
        e = json.loads(l)
        if e["e"] == "reset":
            out.append((e["s"], [e]))
        elif out:
            out[-1][1].append(e)
        else:
            raise vlib.Broken("trace %s does not start with a reset record" % path)
    return out


def _corruptions(sessions):
    """The binding self-test: copies of really recorded sessions with ONE field changed. Each must be rejected."""
    def first(pred):
        for s, lines in sessions:
            for k, e in enumerate(lines):
                if pred(lines, k, e):
                    return copy.deepcopy(lines), k
        return None, None

    def isf(e):
        return e["e"] == "f"

    def compressed(L, k):
        """the message frame k belongs to has RSV1 on its first frame"""
        while k > 0:
            if isf(L[k]) and L[k]["op"] in (1, 2):
                return L[k]["r1"] == 1
            k -= 1
        return False
    specs = [
        ("mask bit flipped on a frame", lambda L, k, e: isf(e), lambda L, k: L[k].update(m=1 - L[k]["m"]), True),
        ("16-bit length form on a frame of at most 125 bytes", lambda L, k, e: isf(e) and e["form"] == 7 and e["op"] in (1, 2),
         lambda L, k: L[k].update(form=16), True),
        ("64-bit length form on a frame of at most 65535 bytes", lambda L, k, e: isf(e) and e["form"] == 16,
         lambda L, k: L[k].update(form=64), True),
        ("RSV1 set on a continuation frame", lambda L, k, e: isf(e) and e["op"] == 0, lambda L, k: L[k].update(r1=1), True),
        # RSV1 says how the payload is to be read (RFC 7692 6: the sender chooses per message): cleared on a single-frame
        # compressed message, the tokenizer reports the compressed octets as they are - not the message
        ("RSV1 cleared on the only frame of a compressed message", lambda L, k, e: isf(e) and e["op"] in (1, 2) and e["r1"] == 1 and e["fin"] == 1,
         lambda L, k: L[k].update(r1=0, ieq=False, ilen=L[k]["len"]), True),
        ("RSV1 set on a message for which permessage-deflate is not in force", lambda L, k, e: isf(e) and e["op"] in (1, 2) and e["r1"] == 0 and not L[0]["msgs"][0]["z"] and k == 1,
         lambda L, k: L[k].update(r1=1), True),
        ("FIN cleared on the last frame of a message", lambda L, k, e: isf(e) and e["op"] in (0, 1, 2) and e["fin"] == 1,
         lambda L, k: L[k].update(fin=0), False),
        ("FIN set on a non-final fragment", lambda L, k, e: isf(e) and e["op"] in (1, 2) and e["fin"] == 0,
         lambda L, k: L[k].update(fin=1, ieq=False, ilen=L[k]["len"], last=0), True),
        ("reassembled payload differs from the message", lambda L, k, e: isf(e) and e.get("ieq") is True,
         lambda L, k: L[k].update(ieq=False), True),
        ("deflate tail 00 00 ff ff left on a compressed message", lambda L, k, e: isf(e) and e.get("ieq") is True and compressed(L, k),
         lambda L, k: L[k].update(last=255), True),
        ("the application wrote one byte more than was sent", lambda L, k, e: e["e"] == "reset" and len(e["msgs"]) > 0,
         lambda L, k: L[0]["msgs"][-1].update(size=L[0]["msgs"][-1]["size"] + 1), False),
        ("a message was never sent", lambda L, k, e: e["e"] == "reset" and len(e["msgs"]) > 0,
         lambda L, k: L[0]["msgs"].append({"t": 1, "size": 0, "z": False, "nl": False}), False),
        ("control frame of 126 bytes", lambda L, k, e: isf(e) and e["op"] >= 8, lambda L, k: L[k].update(len=126, form=16), True),
        ("control frame without FIN", lambda L, k, e: isf(e) and e["op"] >= 8, lambda L, k: L[k].update(fin=0), True),
        ("RSV3 set", lambda L, k, e: isf(e), lambda L, k: L[k].update(r23=1), True),
        ("role swapped", lambda L, k, e: e["e"] == "reset" and len(e["msgs"]) > 0,
         lambda L, k: L[0].update(role="server" if L[0]["role"] == "client" else "client"), False),
    ]
    out = []
    for n, (name, pred, mutate, exact) in enumerate(specs):
        lines, k = first(pred)
        if lines is None:
            out.append(dict(name=name, s=None))
            continue
        mutate(lines, k)
        lines[0]["s"] = SELFTEST_BASE + n
        out.append(dict(name=name, s=SELFTEST_BASE + n, lines=lines, at=k, exact=exact))
    return out


def _parse_tlc_trace_log(logp):
    """-> (consumed, total, nrejected, [(line, session, why)])"""
    txt = open(logp).read()
    rej = []
    for m in re.finditer(r'<<\s*"REJECT",\s*(\d+),\s*(-?\d+),\s*\{(.*?)\}\s*>>', txt, re.S):
        why = re.findall(r'"([^"]*)"', m.group(3))
        rej.append((int(m.group(1)), int(m.group(2)), why))
    m = re.search(r'<<\s*"TRACE",\s*(\d+),\s*(\d+),\s*(\d+)\s*>>', txt)
    if not m:
        raise vlib.Broken("trace validation printed no TRACE line (log %s)" % logp)
    return int(m.group(1)), int(m.group(2)), int(m.group(3)), rej


def _validate(ctx, path, name):
    info = ctx.tlc(SUB, "Trace_WsWire", "Trace_WsWire.cfg", name=name, files={"trace.ndjson": path}, workers=1,
                   count_states=False, timeout=1200)
    consumed, total, nrej, rej = _parse_tlc_trace_log(info["log"])
    nlines = sum(1 for l in open(path) if l.strip())
    if consumed != total or total != nlines or nrej != len(rej):
        raise vlib.Broken("trace validation %s inconsistent: consumed %d of %d lines (file has %d), %d rejections counted, %d reported (log %s)"
                          % (name, consumed, total, nlines, nrej, len(rej), info["log"]))
    return info, rej


def run(ctx):
    t = ctx.tier
    thorough = t == "thorough"
    ctx.rule = ("WsWriterCfg: TLC enumerates the sessions of the factored matrix role x compression(level, payload kind) x write buffer x "
                "API x size class x partition class (single messages), all ordered pairs / triples of a menu of steps with and without "
                "control frames, the pings and the close frame written through WriteControl, WriteMessage, NextWriter+Write+Close or a "
                "prepared message with a control type (multi-message), thorough: all levels, multi-megabyte messages, seeded random partitions, simulated "
                "5-message sessions; resid: write buffers of every residue modulo 8 (thorough: 1..9, 121..136, 1001, 4095, 4097) x API x "
                "messages of 2..6 fragments; WsPeer: TLC enumerates every stream of a conformant foreign sender (one message cut at any "
                "2 (thorough 3) of 14 lengths covering the residues modulo 4 and 8 below and above two machine words, at any 3 (4) of 6 "
                "lengths; lists of 2 and 3 messages compressed or not in every order with a ping between any two frames) x role x Read "
                "size of the receiving application, each written with 4 masking-key schedules into a real Conn; ctl: ReadBufferSize of the "
                "receiving Conn {default, 1, 16, 64, 100, 124, 125, 126, 4096} x a ping of {0, 17, 125} (thorough + 1, 16, 101, 124) octets "
                "before, between or inside two messages; the writer sessions' peer and a fourth Dialer/Upgrader combination also read "
                "through buffers below 125; PreparedCache: every multiset of 3 connection options out of 4 (thorough 7) x prepared message "
                "used before or not x {1000 B, 500 kB}, TLC explores every schedule of the model, the harness releases 3 goroutines "
                "together, 2-3 rounds; WsHandshake: crafted requests with at most 2 (thorough 3) fields off the conformant request x server "
                "configurations, scripted responses x client configurations, library client x library server; a case is distinct if its "
                "JSON differs. Every session is replayed into real Conn endpoints; every frame the library wrote becomes one step of "
                "Trace_WsWire (sessions with identical role, messages and frame records are validated once)")
    ctx.exhaustive = not thorough
    ctx.assumptions += [
        "payload bytes are a position-dependent pattern or seeded random bytes, not all byte strings",
        "WsPeer: octets and masking keys are symbolic (exact for keys with independent octets); the harness uses 4 key schedules "
        "(fresh distinct-octet key per frame, one key, seeded random, equal-octet/zero keys), the frame lengths of a compressed "
        "message are cut points in the real DEFLATE output as far as it reaches",
        "frame records are produced by the harness's own tokenizer (field extraction, unmasking, RFC 7692 inflation with compress/flate); "
        "equality of the reassembled payload with the written message is computed in Go and judged in WsWire (TLC cannot hold megabytes)",
        "write/read deadlines, TLS, proxies, subprotocols and cookies are not exercised",
        "PreparedCache: which schedule of the model a broadcast realises is the Go scheduler's choice (goroutines released together, "
        "payloads large enough for the build to take milliseconds, repeated rounds): a schedule-dependent defect is found with high "
        "probability, not with certainty; data races as such are not judged here (C15)",
        "handshake: only inputs on which RFC 6455 section 4 gives a verdict (no multi-token Connection value in responses, no unsolicited "
        "or partial permessage-deflate answers); a refused request may be answered with the status of any rule it breaks",
        "the rule 'a compressed message does not end in the octet ff' stands for RFC 7692 7.2.1 step 3 (tail 00 00 ff ff removed)",
    ]
    trdir = os.path.join(ctx.out, "traces")
    os.makedirs(trdir, exist_ok=True)
    cases_w = os.path.join(ctx.out, "cases.ndjson")
    cases_h = os.path.join(ctx.out, "cases_handshake.ndjson")
    cases_walk = os.path.join(ctx.out, "cases_walk.ndjson")
    cases_p = os.path.join(ctx.out, "cases_foreign.ndjson")
    cases_pm = os.path.join(ctx.out, "cases_prepared.ndjson")

    # ---- phase 1: the specifications (independent TLC runs side by side) and the harness build
    jobs = []
    pool = ThreadPoolExecutor(max_workers=TLC_PAR)

    def tlc(counted, *a, **kw):
        kw.setdefault("workers", 4)
        kw.setdefault("jopts", TLC_HEAP)
        kw["count_states"] = False
        f = pool.submit(ctx.tlc, *a, **kw)
        jobs.append((f, counted))
        return f

    for m in ("WsWire", "WsWriterCfg", "WsPeer", "PreparedCache", "WsHandshake", "Trace_WsWire"):
        jobs.append((pool.submit(ctx.sany, SUB, m), False))
    build = pool.submit(ctx.go_build)
    # WsWire: the conformant sender is always accepted ...
    tlc(True, SUB, "MC_WsWire", "MC_WsWire.cfg", coverage=thorough)
    # ... every named deviation that shows is rejected (one run over all of them) ...
    tlc(True, SUB, "MC_WsWire", "MC_WsWire_alldevs.cfg")
    # ... and non-vacuity: with the deviation switched on, NoReject must be violated
    tlc(False, SUB, "MC_WsWire", "MC_WsWire_dev_rsv1_on_continuation.cfg", expect_violation="NoReject")
    tlc(False, SUB, "MC_WsWire", "MC_WsWire_dev_len16_for_125.cfg", expect_violation="NoReject")
    if not thorough:
        # (a control frame with RSV1: what a sender makes of a ping it runs through the data path of a compressing connection)
        tlc(False, SUB, "MC_WsWire", "dev.cfg", name="MC_WsWire.dev_control_rsv1", files={"dev.cfg": _dev_cfg("control-rsv1")},
            expect_violation="NoReject", workers=2)
    if thorough:
        for d in DEVS:
            tlc(False, SUB, "MC_WsWire", "dev.cfg", name="MC_WsWire.dev_" + d.replace("-", "_"), files={"dev.cfg": _dev_cfg(d)},
                expect_violation="NoReject", workers=2)
    # WsPeer: the receiver delivers what any conformant sender (one WsWire accepts) wrote; with a deviation of the
    # receiver's mask / decompress state switched on, Intact must be violated
    tlc(True, SUB, "MC_WsPeer", "MC_WsPeer.cfg" if thorough else "MC_WsPeer.quick.cfg", coverage=thorough)
    for d in (PEER_DEVS if thorough else PEER_DEVS[:1] + PEER_DEVS[3:]):
        tlc(False, SUB, "MC_WsPeer", "MC_WsPeer_dev_%s.cfg" % d.replace("-", "_"), expect_violation="Intact", workers=2)
    tlc(False, SUB, "MC_WsPeer", "MC_WsPeer_dev_read_buffer_unclamped.cfg", expect_violation="AllDelivered", workers=2)
    # PreparedCache: every schedule of a broadcast hands every writer the built frame (the same run emits the
    # configurations as cases); published before built, HandedBuilt must be violated
    tlc(True, SUB, "Gen_PreparedCache", "Gen_PreparedCache.%s.cfg" % t, cases_to=cases_pm, workers=2)
    tlc(False, SUB, "Gen_PreparedCache", "MC_PreparedCache_dev_published_before_built.cfg", expect_violation="HandedBuilt", workers=1)
    # WsHandshake: the table, and its deviations
    tlc(True, SUB, "MC_WsHandshake", "MC_WsHandshake.cfg", coverage=thorough)
    tlc(False, SUB, "MC_WsHandshake", "MC_WsHandshake_dev_accept_without_guid.cfg", expect_violation="LibConnects")
    tlc(False, SUB, "MC_WsHandshake", "MC_WsHandshake_dev_extension_not_offered.cfg", expect_violation="ExtOnlyIfOffered")
    if thorough:
        tlc(False, SUB, "MC_WsHandshake", "MC_WsHandshake_dev_accept_not_checked.cfg", expect_violation="ClientTable")
        tlc(False, SUB, "MC_WsHandshake", "MC_WsHandshake_dev_extension_dropped.cfg", expect_violation="LibCompress")
    # GEN
    tlc(True, SUB, "Gen_WsWriterCfg", "Gen_WsWriterCfg.%s.cfg" % t, cases_to=cases_w, timeout=900)
    tlc(True, SUB, "Gen_WsHandshake", "Gen_WsHandshake.%s.cfg" % t, cases_to=cases_h, timeout=900)
    tlc(True, SUB, "Gen_WsPeer", "Gen_WsPeer.%s.cfg" % t, cases_to=cases_p, timeout=900)
    if thorough:
        tlc(False, SUB, "Gen_WsWriterCfg", "Gen_WsWriterCfg.walk.cfg", cases_to=cases_walk, simulate=150, depth=6, workers=1, timeout=900)
    for f, counted in jobs:
        info = f.result()
        if counted:
            ctx.states += info["distinct"]
            ctx.transitions += info["generated"]
    build.result()
    if thorough:
        # the simulated sessions join the enumerated ones
        with open(cases_w, "a") as out:
            seen = set()
            for l in open(cases_walk):
                if l not in seen:
                    seen.add(l)
                    out.write(l)

    # ---- phase 2: replay against the real library (both replayers side by side)
    fw = pool.submit(ctx.replay, "wswriter", cases_w, dir=trdir, timeout=2400)
    fh = pool.submit(_replay_crashing, ctx, "wshandshake", cases_h, dir=os.path.join(trdir, "hs"), extra={"sbase": HS_BASE}, timeout=2400)
    fp = pool.submit(ctx.replay, "wsforeign", cases_p, timeout=2400)
    # (the broadcasts want the processors to themselves: after the others)
    res_w, res_h, res_p = fw.result(), fh.result(), fp.result()
    res_pm = ctx.replay("wsprepared", cases_pm, dir=os.path.join(trdir, "pm"), extra={"sbase": PM_BASE}, timeout=2400, again=8)
    pool.shutdown()
    ctx.judge("wswriter", cases_w, res_w)
    ctx.judge("wsforeign", cases_p, res_p)
    _judge_scheduled(ctx, "wsprepared", cases_pm, res_pm, extra={"sbase": PM_BASE})
    ctx.judge("wshandshake", cases_h, res_h, extra={"sbase": HS_BASE})

    # ---- phase 3: trace validation of everything the library wrote, plus the binding self-test
    parts = [p for p in (os.path.join(trdir, "trace_wswire.ndjson"), os.path.join(trdir, "hs", "trace_wswire.ndjson"),
                         os.path.join(trdir, "pm", "trace_wswire.ndjson")) if os.path.exists(p)]
    if not parts:
        raise vlib.Broken("the replayers recorded no trace")
    trace = os.path.join(ctx.out, "trace.ndjson")
    with open(trace, "w") as out:
        for p in parts:
            shutil.copyfileobj(open(p), out)
    sessions = _sessions(trace)
    full_run = len(sessions) > 100
    corr = _corruptions(sessions)
    missing = [c["name"] for c in corr if c["s"] is None]
    with open(trace, "a") as out:
        for c in corr:
            if c["s"] is not None:
                for e in c["lines"]:
                    out.write(json.dumps(e, separators=(",", ":")) + "\n")
    info, rej = _validate(ctx, trace, "Trace_WsWire.all")
    ctx.states += info["distinct"]
    ctx.transitions += info["generated"]
    all_lines = [l for l in open(trace) if l.strip()]

    # the corrupted copies must be rejected (at the corrupted record where the rule is local) - else nothing binds
    by_ses = {}
    for line, s, why in rej:
        by_ses.setdefault(s, []).append((line, why))
    first_line = {}
    n = 0
    for s, lines in sessions:
        first_line[s] = n + 1
        n += len(lines)
    selftest = []
    problems = ["no recorded session to apply '%s' to" % m for m in missing] if full_run else []
    for c in corr:
        if c["s"] is None:
            continue
        start = n + 1
        n += len(c["lines"])
        got = by_ses.get(c["s"])
        if not got:
            problems.append("the recorded session with '%s' was ACCEPTED by Trace_WsWire" % c["name"])
        elif c["exact"] and got[0][0] != start + c["at"]:
            problems.append("'%s' rejected at line %d, the corrupted line is %d" % (c["name"], got[0][0], start + c["at"]))
        else:
            selftest.append({"corruption": c["name"], "rejected_for": got[0][1]})
    ctx.notes["binding_selftest"] = selftest

    # rejections of real sessions are verdicts about the library (after reproduction in isolation)
    real = {s: v for s, v in by_ses.items() if s < SELFTEST_BASE}
    owners = {}
    for stage, cpath, res in (("wswriter", cases_w, res_w), ("wshandshake", cases_h, res_h), ("wsprepared", cases_pm, res_pm)):
        cl = None
        for r in res:
            for s in ((r.get("info") or {}).get("s") or []):
                if s in real:
                    if cl is None:
                        cl = ctx.load_cases(cpath)
                    owners.setdefault(s, []).append((stage, json.loads(cl[r["i"]]), r["i"]))
    ctx.notes["trace"] = {"lines": len(all_lines), "sessions_recorded": len(sessions),
                          "sessions_of_cases": sum(len((r.get("info") or {}).get("s") or []) for r in res_w + res_h + res_pm),
                          "rejected_sessions": len(real)}
    ctx.traces_validated += len(sessions)
    classes = {}
    for s in sorted(real):
        line, why = real[s][0]
        if s not in owners:
            raise vlib.Broken("rejected session %d belongs to no case" % s)
        frame = all_lines[line - 1].strip()
        head = all_lines[first_line[s] - 1].strip()
        what = ("WsWire rejects the recorded frame stream: %s: record %s (trace line %d, session %d); session %s"
                % ("; ".join(why), frame, line, s, head[:300]))
        classes.setdefault(tuple(why), []).append((s, what))
    for why, lst in classes.items():
        for s, what in lst[:2]:
            stage, case, _ = owners[s][0]
            _reproduce(ctx, stage, case, why)
        for s, what in lst:
            for stage, case, idx in owners[s]:
                ctx.fail_results.append((stage, case, {"i": idx, "ok": False, "what": what}))
    if problems and not ctx.fail_results:
        # (the copies are made from what THIS tree wrote: on a tree that breaks the property they may be
        # unavailable or already invalid before the corrupted record - then the verdict stands on its own)
        raise vlib.Broken("binding self-test: " + "; ".join(problems))
    if problems:
        ctx.notes["binding_selftest_skipped"] = problems


def _replay_crashing(ctx, stage, cases, **kw):
    """ctx.replay for a stage with goroutines the replayer cannot guard (server handlers, reader pumps). A panic of the
    library there kills the process; vlib takes it for a verdict when the process dies of a library panic twice in a
    row and gives up (Broken) when the second run gets through. Such a panic is typically a race inside the library
    (shared pooled state), so it does not strike every time: here the stage is run up to three times, and the process
    dying of a panic in library code in two of them is the verdict. One that never comes back stays Broken."""
    first = None
    seen = []
    for attempt in range(3):
        try:
            res = ctx.replay(stage, cases, **kw)
        except vlib.Broken as e:
            txt = str(e)
            at = [i for i in (txt.find("panic:"), txt.find("fatal error:")) if i >= 0]
            lp = vlib.library_panic(txt[min(at):]) if at else None
            if not lp:
                raise
            first = first or e
            seen.append(lp)
            if len(seen) == 2:
                raise vlib.LibraryCrash(stage, "the library panicked on a goroutine outside the replayer's guard and killed the process "
                                        "(in %d of %d runs of the stage, not every time): %s; %s" % (len(seen), attempt + 1, seen[0], seen[1]))
            if kw.get("dir"):
                shutil.rmtree(kw["dir"], ignore_errors=True)     # the sessions recorded by the run that died
            continue
        if first is not None:
            raise first      # it died of a library panic once and then never again: not reproducible, not a verdict
        return res
    raise first


def _judge_scheduled(ctx, stage, cases_path, res, extra=None):
    """judge for a stage whose cases leave the schedule to the Go scheduler: a failure is reproduced by running (up to 6
    of) the failing cases again, the ones with the largest payloads first - there the window is widest; it is a verdict
    when one of them fails again. (vlib's own reproduction wants each of the first failures of a class to fail again
    alone, which a schedule-dependent one need not.)"""
    fails = ctx.judge(stage, cases_path, res, extra=extra, reproduce=False)
    if not fails:
        return
    pick = sorted(fails, key=lambda cr: -cr[0].get("size", 0))[:6]
    again = os.path.join(ctx.out, "again_%s.ndjson" % stage)
    with open(again, "w") as f:
        for case, _ in pick:
            f.write(json.dumps(case) + "\n")
    d = os.path.join(ctx.out, "repro_" + stage)
    shutil.rmtree(d, ignore_errors=True)
    for attempt in range(2):
        if any(not r["ok"] for r in ctx.replay(stage, again, dir=d, extra=extra, again=0)):
            return
    raise vlib.Broken("%d failures of stage %s, none of %d came again in two more runs: %s"
                      % (len(fails), stage, len(pick), json.dumps(pick[0][1])[:400]))


def _reproduce(ctx, stage, case, why):
    """Replay one case alone, validate its trace alone: the rejection must occur again."""
    d = os.path.join(ctx.out, "repro")
    shutil.rmtree(d, ignore_errors=True)
    os.makedirs(d)
    single = os.path.join(ctx.out, "single_trace_%s.ndjson" % stage)
    with open(single, "w") as f:
        f.write(json.dumps(case) + "\n")
    ctx.replay(stage, single, dir=d)
    p = os.path.join(d, "trace_wswire.ndjson")
    if not os.path.exists(p):
        raise vlib.Broken("reproduction of a rejected session recorded no trace")
    _, rej = _validate(ctx, p, "Trace_WsWire.repro")
    if not rej:
        raise vlib.Broken("rejection %s of a %s session not reproducible in isolation: %s" % (list(why), stage, json.dumps(case)[:400]))
