"""C11: ADTS framing and AudioSpecificConfig (spec/aac/Adts.tla)."""
import os

SEED_MODULE = """---------------------------- MODULE Gen_AdtsSeed ----------------------------
Seed == %d
=============================================================================
"""


def run(ctx):
    ctx.rule = ("TLC enumerates the finite matrices of Gen_Adts: all 65536 two-byte AudioSpecificConfig inputs (256 cases x 256), "
                "struct values object x sfi x channels incl. out-of-field values, the frequency table and profile conversions for all "
                "256 values, every accepted configuration x boundary/seeded raw lengths through the library encoder, every "
                "id x protection x profile x sfi x channels x length frame written from the ISO layout, and all 2- and 3-frame "
                "concatenations over a pool of library/ISO, CRC/no-CRC frames; payload classes (the raw block is a complete ADTS frame of "
                "the same / another configuration, either ID, with CRC, wrapped twice or three times, one byte longer / shorter than its "
                "length field, starts with a sync word, is only header bytes) x carrier x inner length, alone and between other frames; "
                "long-stream shapes frame kind x count (one kind, two kinds alternating, one kind after the other) ending just below / "
                "at or above 2^15..2^20 bytes, decoded one frame at a time by one decoder through one buffer; a case is distinct if its "
                "JSON differs; each stream case is replayed with three payloads (pattern, sync-word look-alike, seeded random)")
    ctx.exhaustive = True
    ctx.assumptions += [
        "raw blocks are opaque: three payload families per case (position pattern, bytes that look like ADTS headers, seeded random) "
        "plus the payload classes of the specification (complete frames, header look-alikes), not all byte strings",
        "streams up to about 1 MiB (2^20 bytes); buffer lengths at the 32-bit boundary are out of reach",
        "the 16 CRC bits of spec-written frames are pattern values (0xFFF1, 0, 0xFFFF, mixed), not a CRC computed over a parsed raw_data_block",
        "frame lengths: the boundary set of the cfg plus seeded random lengths, not all 8184",
        "header bits the property does not name (ID, private, original/copy, home, copyright, buffer fullness) are not compared on encoder output",
    ]
    J = ["-Xmx3g"]
    ctx.sany("aac", "Adts")
    ctx.tlc("aac", "MC_Adts", "MC_Adts.cfg", coverage=(ctx.tier == "thorough"), jopts=J)
    ctx.tlc("aac", "MC_Adts", "MC_Adts_crc7.cfg", expect_violation="DecodeExact", count_states=False, jopts=J)
    # payload classes: the raw block handed to Encode / carried by the ISO writer is itself a frame or looks like a header
    ctx.tlc("aac", "MC_Adts", "MC_Adts_pay.cfg", coverage=(ctx.tier == "thorough"), jopts=J)
    ctx.tlc("aac", "MC_Adts", "MC_Adts_pass.cfg", expect_violation="DecodeExact", count_states=False, jopts=J)
    # a stream longer than 64 KiB (9 frames of 8191 bytes) taken off one frame at a time
    ctx.tlc("aac", "MC_Adts", "MC_Adts_long.cfg", jopts=J)
    ctx.tlc("aac", "MC_Adts", "MC_Adts_len16.cfg", expect_violation="DecodeExact", count_states=False, jopts=J)
    ctx.tlc("aac", "MC_AdtsTables", "MC_AdtsTables.cfg", jopts=J)
    cases = os.path.join(ctx.out, "cases.ndjson")
    ctx.tlc("aac", "Gen_Adts", "Gen_Adts.%s.cfg" % ctx.tier, cases_to=cases, timeout=800, jopts=J,
            files={"Gen_AdtsSeed.tla": SEED_MODULE % (ctx.seed % 1000003)})
    res = ctx.replay("adts", cases)
    ctx.judge("adts", cases, res)
    # behaviours of the ADTS object (model -> code, abstract state compared after every step)
    beh = os.path.join(ctx.out, "behaviours.ndjson")
    ctx.tlc("aac", "Gen_AdtsBeh", "Gen_AdtsBeh.%s.cfg" % ctx.tier, cases_to=beh, timeout=800, jopts=J)
    ctx.tlc("aac", "Gen_AdtsBeh", "Gen_AdtsBeh.pay.%s.cfg" % ctx.tier, cases_to=beh, timeout=800, jopts=J)
    # Depth of the cfg is 44: -depth 45 ends every random trace on a complete behaviour
    ctx.tlc("aac", "Gen_AdtsBeh", "Gen_AdtsBeh.long.cfg", cases_to=beh, simulate=(6 if ctx.tier == "quick" else 60), depth=45,
            workers=1, timeout=800, jopts=J)
    if ctx.tier == "thorough":
        # Depth of the cfg is 14: -depth 15 ends every random trace on a complete behaviour
        ctx.tlc("aac", "Gen_AdtsBeh", "Gen_AdtsBeh.sim.cfg", cases_to=beh, simulate=250, depth=15, workers=8, timeout=800, jopts=J)
    res = ctx.replay("adtsbeh", beh)
    ctx.judge("adtsbeh", beh, res)
