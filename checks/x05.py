"""X05 (extra, not a listed property): WebSocket session lifecycle and negotiation (spec/wslife/WsLife.tla).

What C13 (frames on the wire, accept key, permessage-deflate), C14 (the receiver's framing rules) and C15 (write lock,
close-sent latch under concurrency) leave out: the opening NEGOTIATION beyond the accept key (subprotocol selection,
origin rule, which requests are handshakes and what refuses them, what a Dialer makes of a response) and the LIFE of
a session as a machine of two endpoints and two FIFOs of frames (closing handshake, control-frame handlers, sticky
errors, what is still readable after a Close was sent, transport closed without handshake, abandoned readers, JSON,
prepared messages, compression switched mid-session, read limit).

MC    the guarantees hold on the specification: NothingAfterClose, LatchIsClose, EchoMirrors, EchoOnce, EchoHappens,
      CloseErrorSticky, PongMirrorsPing, NoDataAfterCloseSent, StillReadable, CleanCloseAgree, AbnormalOnlyIfTransport
      over every behaviour of each family's alphabet; ServerSelectsOffered, ServerPrefers, NegotiatedProtocolOffered,
      AgreeSubprotocol, SameOriginOnly, UpOnlyIfHandshake over every negotiation; nine named deviations each break
      the invariant that states the clause.
GEN   TLC emits every behaviour (calls of two applications; per call what it returns, the frames either endpoint
      writes, the handler calls, the endpoints' states), every negotiation with the specification's verdict, and the
      value matrices.
REPLAY model -> code on two real websocket.Conn over the in-memory transport (life), on the real Upgrader behind
      net/http and the real Dialer over loopback TCP / net.Pipe (neg), and function by function (mx, api).

Observations.  There is no listed property to violate.  Where the library contradicts RFC 6455 or its own
documentation the RFC / documentation is the specification and the replayer names the deviation; the deviations listed
in OBSERVATIONS are reported as `OBSERVATION` lines (evidence: coverage.observations) and do not make the run fail.
Everything else that differs from the specification is a VIOLATION.  `X05_STRICT=1` turns observations into violations.
"""
import concurrent.futures
import json
import os

from lib import vlib

OBSERVATIONS = {
    "X05/dialer-accepts-unoffered-subprotocol":
        "RFC 6455 4.1 (client requirements, item 6): if the response's Sec-WebSocket-Protocol names a subprotocol that was not present in "
        "the client's handshake, the client MUST fail the connection.  Observed: Dialer.Dial returns a connection whose Subprotocol() is "
        "whatever the server named (client.go: conn.subprotocol = resp.Header.Get(\"Sec-Websocket-Protocol\"), never compared with "
        "Dialer.Subprotocols / the requestHeader)",
    "X05/dialer-accepts-unoffered-extension":
        "RFC 6455 4.1 item 5 / 9.1: a response naming an extension the client did not offer MUST fail the connection.  Observed: a Dialer "
        "with EnableCompression=false accepts 'permessage-deflate' in the response (and then inflates RSV1 frames), and any other "
        "extension name in the response is ignored",
    "X05/subprotocol-header-lines-not-combined":
        "RFC 6455 11.3.4: Sec-WebSocket-Protocol 'MAY appear multiple times in an HTTP request (which is logically the same as a single "
        "header field that contains all values)'.  Observed: Subprotocols(r) and Upgrader.selectSubprotocol read the first header line "
        "only (r.Header.Get), so a protocol asked for on a second line is never selected",
    "X05/challenge-key-not-validated":
        "RFC 6455 4.2.1 item 5: Sec-WebSocket-Key is 'a base64-encoded value that, when decoded, is 16 bytes in length'; 4.2.2: a "
        "handshake that does not match MUST be refused (400).  Observed: Upgrade accepts every non-empty key (10 bytes, 20 bytes, not "
        "base64 at all) and answers 101",
    "X05/origin-host-compared-case-sensitively":
        "Upgrader.CheckOrigin nil: 'the host in the Origin header must not be set or must match the host of the request'; host names are "
        "case-insensitive (RFC 3986 3.2.2, RFC 6454 4).  Observed: Origin http://X05.Example:8080 with Host x05.example:8080 is refused "
        "with 403 (checkSameOrigin compares u.Host == r.Host byte by byte)",
    "X05/http10-handshake-accepted":
        "RFC 6455 4.2.1 item 1: the handshake is 'an HTTP/1.1 or higher GET request'.  Observed: an HTTP/1.0 request is upgraded (and "
        "answered with an HTTP/1.1 status line)",
    "X05/reserved-close-code-written":
        "RFC 6455 7.4.1: 1005, 1006 and 1015 'MUST NOT be set as a status code in a Close control frame by an endpoint'.  Observed: "
        "FormatCloseMessage(CloseNoStatusReceived, ..) (1006, 1015 likewise) yields a body with that code and WriteControl / WriteMessage "
        "send it; the peer (this library too) fails the connection with 1002",
    "X05/one-byte-close-body-accepted":
        "RFC 6455 5.5.1: 'If there is a body, the first two bytes of the body MUST be a 2-byte unsigned integer'.  Observed: a Close "
        "frame with a body of one byte is taken for a Close without status (close code 1005, handler called, empty Close echoed) "
        "instead of failing the connection with 1002 (advanceFrame: len(payload) >= 2, no else)",
    "X05/url-fragment-sent":
        "RFC 6455 section 3: 'Fragment identifiers are meaningless in the context of WebSocket URIs and MUST NOT be used on these "
        "URIs' (a '#' has to be escaped as %23).  Observed: Dial(\"ws://host/p#frag\") sends the request line 'GET /p#frag HTTP/1.1'",
    "X05/prepared-message-mask-key-reused":
        "RFC 6455 5.3: 'the client MUST pick a fresh key' for every masked frame (10.3: unpredictable).  Observed: a PreparedMessage "
        "written by client connections goes out with one and the same masking key every time, on every connection (the masked frame is "
        "computed once per (role, compression, level) and replayed)",
    "X05/eof-in-abandoned-frame-not-1006":
        "RFC 6455 7.1.5 / conn.go errUnexpectedEOF: the stream ending without a Close frame is reported as *CloseError 1006.  Observed: "
        "when it ends inside a frame whose rest NextReader is dropping (the application left the previous reader early), NextReader "
        "returns the bare io.EOF (advanceFrame step 1: io.CopyN's error is passed on unmapped)",
    "X05/control-message-needs-write-buffer":
        "Dialer/Upgrader documentation: 'The I/O buffer sizes do not limit the size of the messages that can be sent or received'; RFC "
        "6455 5.5: a control frame carries up to 125 bytes.  Observed: with a write buffer smaller than the payload, "
        "WriteMessage(PingMessage/PongMessage/CloseMessage, p) of a client (or of a server with compression) fails with 'invalid control "
        "frame' (the message writer wants to fragment it), and because messageWriter.fatal tests `w.err != nil` the half-filled writer "
        "stays the connection's writer: the next NextWriter/WriteMessage flushes a truncated control frame of the refused message",
}

DEVIATIONS = [  # (cfg, invariant that must be reported violated)
    ("MC_WsLife_dev_echo_1000.cfg", "CleanCloseAgree"),
    ("MC_WsLife_dev_echo_reserved.cfg", "EchoMirrors"),
    ("MC_WsLife_dev_echo_always.cfg", "EchoOnce"),
    ("MC_WsLife_dev_not_sticky.cfg", "CloseErrorSticky"),
    ("MC_WsLife_dev_data_after_close.cfg", "NoDataAfterCloseSent"),
    ("MC_WsLife_dev_pong_empty.cfg", "PongMirrorsPing"),
    ("MC_WsLife_dev_server_first_pref.cfg", "ServerSelectsOffered"),
    ("MC_WsLife_dev_client_unoffered.cfg", "NegotiatedProtocolOffered"),   # what the library does: the observation, on the specification
    ("MC_WsLife_dev_origin_any_host.cfg", "SameOriginOnly"),
]

FAMILIES = ["all", "bodies", "raw1", "ctl", "handlers", "data", "limit", "frag", "shut", "readers"]

API_CASES = ["handshake-timeout", "cookie-jar", "pipelined-data", "prepared-shared", "prepared-mask-keys", "abandoned-cut",
             "not-hijacker", "deprecated-upgrade", "new-client", "accessors", "small-write-buffer"]


HEAP = ["-Xmx3g"]     # several JVMs run side by side: none may claim a quarter of the machine
SMALL = ["-Xmx1g"]


def parallel(jobs, width=4):
    """Run thunks that call ctx.tlc concurrently (each TLC is its own JVM); the first failure is raised."""
    out = [None] * len(jobs)
    with concurrent.futures.ThreadPoolExecutor(max_workers=width) as ex:
        futs = {ex.submit(j): k for k, j in enumerate(jobs)}
        err = None
        for f in concurrent.futures.as_completed(futs):
            try:
                out[futs[f]] = f.result()
            except Exception as e:   # noqa: BLE001 - re-raised below
                err = err or e
        if err:
            raise err
    return out


def life_classes(paths, need):
    """Which situations the generated behaviours contain (vacuity guard for GEN)."""
    seen = {}

    def hit(k):
        seen[k] = seen.get(k, 0) + 1
    for path in paths:
        with open(path) as f:
            for line in f:       # every behaviour: TLC's workers emit them in no particular order
                c = json.loads(line)
                hit("fam-" + c["fam"])
                if c["z"]:
                    hit("compressed")
                for h in (c["hc"], c["hs"]):
                    for k in ("close", "ping", "pong"):
                        if h[k] != "default":
                            hit("handler-%s-%s" % (k, h[k]))
                sent_close = {"c": False, "s": False}
                for s in c["steps"]:
                    hit("act-" + s["a"])
                    hit("ret-" + s["ret"]["c"])
                    if s["a"] == "read":
                        hit("read-" + s["arg"]["mode"])
                    for st in s["st"]:
                        hit("state-" + st)
                    for side, fr in (("c", s["wc"]), ("s", s["ws"])):
                        for x in fr:
                            if x["k"] == "close":
                                hit("close-auto" if x["auto"] else "close-app")
                                if x["auto"] and x["b"]["k"] == "empty":
                                    hit("echo-empty")
                                if x["auto"] and x["b"]["k"] == "code":
                                    hit("auto-%d" % x["b"]["code"] if x["b"]["code"] in (1002, 1009) else "echo-code")
                                sent_close[side] = True
                            elif x["k"] == "pong" and x["auto"]:
                                hit("pong-auto")
                            elif x["k"] == "data":
                                if not (x["f"] and x["l"]):
                                    hit("data-piece")
                                if x["z"]:
                                    hit("data-compressed")
                    if s["a"] == "read" and s["ret"]["c"] in ("msg", "part", "json") and sent_close[s["e"]]:
                        hit("read-after-own-close")
                    if s["hc"]:
                        hit("handler-called")
    missing = [k for k in need if not seen.get(k)]
    if missing:
        raise vlib.Broken("generated behaviours never contain: %s" % missing)
    return seen


def neg_classes(path, need):
    seen = {}

    def hit(k):
        seen[k] = seen.get(k, 0) + 1
    with open(path) as f:
        for line in f:
            c = json.loads(line)
            g, x = c["neg"], c["exp"]
            hit("kind-" + g["kind"])
            hit("up" if x["up"] else "down")
            for fl in x["failures"]:
                hit("fail-" + fl)
            if x["chosen"]:
                hit("chosen")
            if x["serverOk"] and not x["clientOk"] and g["kind"] == "lib":
                hit("client-must-fail")
            if len(g["offer"]) > 1:
                hit("offer-lines")
            if g["hook"]:
                hit("hook")
            if x["refuses"]:
                hit("dialer-refuses")
            hit("origin-" + g["origin"])
    missing = [k for k in need if not seen.get(k)]
    if missing:
        raise vlib.Broken("generated negotiations never contain: %s" % missing)
    return seen


def set_aside_observations(ctx):
    """Failures that equal a named observation are reported, counted and (unless X05_STRICT) not treated as violations."""
    if os.environ.get("X05_STRICT"):
        return
    keep, obs = [], {}
    for stage, case, r in ctx.fail_results:
        k = r.get("deviation")
        if k in OBSERVATIONS:
            obs.setdefault(k, []).append((stage, case, r))
        else:
            keep.append((stage, case, r))
    ctx.fail_results = keep
    notes = {}
    for n, (k, lst) in enumerate(sorted(obs.items())):
        stage, case, r = lst[0]
        rp = os.path.join(ctx.out, "observation-%d.json" % n)
        with open(rp, "w") as f:
            json.dump({"property": ctx.prop, "stage": stage, "seed": ctx.seed, "tier": ctx.tier, "case": case, "result": r}, f, indent=1)
        print("OBSERVATION property=%s %s (%d cases this run) replay=%s" % (ctx.prop, k, len(lst), rp))
        print("  %s" % OBSERVATIONS[k])
        print("  e.g. stage=%s what=%s" % (stage, (r.get("what") or "")[:400]))
        notes[k] = {"cases": len(lst), "what": OBSERVATIONS[k], "example": {"stage": stage, "observed": r.get("what")}}
    ctx.notes["observations"] = notes


def run(ctx):
    t = ctx.tier
    quick = t == "quick"
    ctx.rule = ("life: a case is one behaviour of the two-endpoint specification: calls of two applications (write data / JSON / prepared / in "
                "two parts, Close with a body, ping, pong, EnableWriteCompression, read whole / partly / as JSON, close the transport), each "
                "with what it returns, the frames either endpoint writes during it, the handler calls and both endpoints' states; TLC "
                "enumerates every behaviour of each family's alphabet to %s calls (families: everything with small alphabets; every Close "
                "body; one-byte body; control payload sizes 0/125/126; custom handlers; sizes x read modes x compression; read limit; "
                "messages in two parts; shutdown) plus %s seeded random behaviours of 12 calls over the union; "
                "neg: every negotiation of the alphabet (Dialer x Upgrader: protocols asked / supported / responseHeader / origin / policy; "
                "crafted requests: method, HTTP version, Connection / Upgrade lines, version, key, origin x policy x Error hook, protocol "
                "lines; scripted responses: status x protocol x extensions x extra headers x EnableCompression); mx: close codes, "
                "IsCloseError, compression levels, URLs, helpers; api: 11 fixed scenarios; distinct = distinct behaviours / rows"
                % ("3-4" if quick else "3-5", "100" if quick else "12000"))
    ctx.exhaustive = True
    ctx.assumptions += [
        "both endpoints are this library (what an arbitrary peer may send is C14's subject); frames are compared as control frames and "
        "'pieces' of data messages (how a message is cut into frames is C13's); one goroutine steps both endpoints (concurrency: C15)",
        "the in-memory transport: a closed transport fails the peer's writes at once and lets the peer read what was written before; an "
        "endpoint that closed the transport itself is not read afterwards",
        "reads are only generated when the frames they need have been written (a blocked read is not a behaviour of the model)",
        "the reason text of Close frames the library writes on its own account (echo, 1002, 1009) and all error texts are free; of a "
        "failing write only the class (ErrCloseSent / other) and the sticky write error are compared",
        "messages written in two parts and the read limit are exercised without compression (with compression the limit counts compressed "
        "bytes and the deflater decides what is on the wire after the first part)",
        "write buffer 128 bytes in the life stage (the smaller-buffer defect is the api scenario small-write-buffer); payload bytes are "
        "patterns, text messages ASCII; close code 1014 and IANA codes registered after RFC 6455 are not generated",
        "an application keeps to 'at most one open writer': no data / control MESSAGE API call while a NextWriter is open (WriteControl is used)",
        "header maps handed to the library use canonical keys; Sec-WebSocket-Protocol values are tokens; subprotocol names compare as they are",
        "origins 'null', with userinfo, or with an explicit default port, Upgrade: websocket/13, Sec-WebSocket-Version lists and upper-case "
        "URL schemes are not in the alphabets (the RFCs can be read either way)",
        "TLS (wss beyond the address dialled), proxies (Dialer.Proxy) and Upgrader.HandshakeTimeout are not exercised",
    ]
    for m in ("Gen_WsLife", "Gen_WsLifeNeg", "Gen_WsLifeMx"):
        ctx.sany("wslife", m)          # they extend MC_WsLife and WsLife

    out = ctx.out
    groups = ["quick"] if quick else ["a", "b", "c"]          # generator runs (one JVM each; a configuration is a family)
    life_files = {g: os.path.join(out, "cases_life_%s.ndjson" % g) for g in groups + ["sim"]}
    neg_file = os.path.join(out, "cases_neg.ndjson")
    mx_file = os.path.join(out, "cases_mx.ndjson")
    st_file = os.path.join(out, "cases_selftest.ndjson")
    st2_file = os.path.join(out, "cases_selftest2.ndjson")
    jobs = []
    mc_infos = []
    gen_infos = []

    def mc(cfg, workers, cov=False):
        def go():
            mc_infos.append(ctx.tlc("wslife", "MC_WsLife", cfg, workers=workers, timeout=850, count_states=False, coverage=cov, jopts=HEAP))
        return go

    def dev(cfg, inv):
        return lambda: ctx.tlc("wslife", "MC_WsLife", cfg, expect_violation=inv, count_states=False, workers=2, jopts=SMALL)

    def gen(module, cfg, dest, keep=None, **kw):
        kw.setdefault("workers", 4)
        kw.setdefault("jopts", SMALL)

        def go():
            info = ctx.tlc("wslife", module, cfg, cases_to=dest, count_states=False, timeout=850, **kw)
            if keep is not None:
                keep.append(info)
        return go

    # MC: the guarantees on the specification.  The generator runs check the same invariants on every state they pass
    # through (their state space is the tree of behaviours); the MC configurations explore the state graph without the
    # history variable (thorough: a call deeper where that is affordable), and every negotiation
    if quick:
        jobs.append(mc("MC_WsLife.quick.cfg", 4))
        jobs.append(gen("Gen_WsLife", "Gen_WsLife.quick.cfg", life_files["quick"], keep=gen_infos, workers=8, jopts=HEAP))
    else:
        jobs.append(mc("MC_WsLife_a.thorough.cfg", 6, cov=True))
        jobs.append(mc("MC_WsLife_b.thorough.cfg", 6, cov=True))
        jobs.append(mc("MC_WsLife_neg.cfg", 2))
        for g in groups:
            jobs.append(gen("Gen_WsLife", "Gen_WsLife_%s.thorough.cfg" % g, life_files[g], keep=gen_infos, workers=6, jopts=HEAP))
    jobs.append(gen("Gen_WsLife", "Gen_WsLife_sim.cfg", life_files["sim"], simulate=(25 if quick else 1500), depth=14,
                    workers=(4 if quick else 8), jopts=HEAP))  # TLC simulates `simulate` behaviours per worker
    jobs.append(gen("Gen_WsLifeNeg", "Gen_WsLifeNeg.cfg", neg_file, keep=gen_infos, workers=2))      # checks the negotiation invariants too
    jobs.append(gen("Gen_WsLifeMx", "Gen_WsLifeMx.cfg", mx_file, workers=1))
    jobs.append(gen("Gen_WsLife", "Gen_WsLife_selftest_echo.cfg", st_file, workers=2))
    if not quick:
        jobs.append(gen("Gen_WsLife", "Gen_WsLife_selftest_pong.cfg", st2_file, workers=2))
    # non-vacuity: each named deviation breaks the invariant that states its clause
    for cfg, inv in DEVIATIONS:
        jobs.append(dev(cfg, inv))
    parallel(jobs, width=(5 if quick else 6))
    ctx.states = sum(i["distinct"] for i in mc_infos + gen_infos)
    ctx.transitions = sum(i["generated"] for i in mc_infos + gen_infos)
    if not quick:
        dead = sorted(set(a for i in mc_infos for a in i.get("actions_never_taken", [])))
        if dead:
            raise vlib.Broken("vacuous MC run: action(s) never taken: %s" % dead)

    need = (["fam-" + f for f in FAMILIES + ["sim"]] +
            ["act-" + a for a in ("wdata", "wjson", "wprep", "wbegin", "wend", "wclose", "wping", "wpong", "setz", "tclose", "read")] +
            ["ret-" + r for r in ("ok", "closesent", "io", "invalid", "msg", "part", "json", "jsonerr", "ueof", "close", "eof", "protocol",
                                  "limit", "handler")] +
            ["state-" + s for s in ("Open", "CloseSent", "CloseReceived", "Closed")] +
            ["read-msg", "read-part", "read-json", "close-auto", "close-app", "echo-empty", "echo-code", "auto-1002", "auto-1009", "pong-auto",
             "data-piece", "data-compressed", "compressed", "read-after-own-close", "handler-called",
             "handler-close-silent", "handler-close-own", "handler-ping-err", "handler-pong-err"])
    ctx.notes["case_classes_life"] = life_classes(list(life_files.values()), need)
    ctx.notes["case_classes_neg"] = neg_classes(neg_file, [
        "kind-lib", "kind-crafted", "kind-scripted", "up", "down", "chosen", "client-must-fail", "offer-lines", "hook", "dialer-refuses",
        "fail-method", "fail-httpversion", "fail-connection", "fail-upgrade", "fail-version", "fail-key", "fail-origin", "fail-appext",
        "origin-samecase", "origin-suffix", "origin-malformed", "origin-empty", "origin-otherport"])

    # binding self-test: behaviours generated from a specification with a wrong rule (echo 1000; empty pongs) must be
    # rejected by the replay of the real library, otherwise nothing binds specification and code
    for name, path in [("echo-1000", st_file)] + ([] if quick else [("pong-empty", st2_file)]):
        sres = ctx.replay("life", path)
        rejected = sum(1 for r in sres if not r["ok"])
        ctx.notes.setdefault("selftest", {})[name] = {"cases": len(sres), "rejected": rejected}
        if rejected == 0:
            raise vlib.Broken("binding self-test: %d behaviours of a specification with the deviation %s were all accepted by the replay"
                              % (len(sres), name))

    # REPLAY
    for g in groups + ["sim"]:
        res = ctx.replay("life", life_files[g], timeout=3000)
        ctx.judge("life", life_files[g], res)
    res = ctx.replay("neg", neg_file)
    ctx.judge("neg", neg_file, res)
    res = ctx.replay("mx", mx_file)
    ctx.judge("mx", mx_file, res)
    api = os.path.join(out, "cases_api.ndjson")
    with open(api, "w") as f:
        for k in API_CASES:
            f.write(json.dumps({"kind": k}) + "\n")
    res = ctx.replay("api", api)
    ctx.judge("api", api, res)
    set_aside_observations(ctx)
