"""C20: rate meters report the counter's growth over the last full window (spec/kxps/Kxps.tla)."""
import json
import os
import re

from lib import vlib

DEVIATIONS = [  # (cfg suffix, property that must be reported violated)
    ("window_gt", "WindowRule"),
    ("elapsed_div", "RateDef"),
    ("unsigned_diff", "BackwardsZero"),
    ("unsigned_diff_sane", "Sane"),
    ("avg_late", "AvgDef"),
    ("read_unguarded", "StartedGuard"),
    ("closed_counts_as_started", "ReadsRefusedUnlessStarted"),
]


def actions_covered(info, actions=("Observe", "Start", "ReadRate")):
    """-coverage 1 log: every action of Next must have been taken (a check that exercised nothing is broken)."""
    last = {}
    for line in open(info["log"]):
        m = re.match(r"<(\w+) line .* of module Kxps.*>: (\d+):(\d+)", line)
        if m:
            last[m.group(1)] = int(m.group(3))
    dead = [a for a in actions if not last.get(a)]
    if dead:
        raise vlib.Broken("vacuous MC run %s: action(s) %s never taken (log %s)" % (info["name"], dead, info["log"]))
    return {a: last[a] for a in actions}


def case_classes(path, limit=200000):
    """Which situations the generated behaviours contain (vacuity guard for GEN); scans the first `limit` cases."""
    seen = {}

    def hit(k):
        seen[k] = seen.get(k, 0) + 1
    with open(path) as f:
        for n, line in enumerate(f):
            if n >= limit:
                break
            c = json.loads(line)
            if c["fam"] == "life":
                continue
            for e in c["h"]:
                if e[0] == 1:
                    hit("start")
                    continue
                hit("read-started" if e[1] else "read-refused")
                if e[5] == 0:
                    hit("zero-counter")
                for w in range(3):
                    fl, nn, aa = e[7 + w], e[10 + w], e[13 + w]
                    if fl == 1:
                        hit("w%d-samples" % w)
                        hit("w%d-growth" % w if nn > 0 and nn == aa else "w%d-zero" % w if nn == 0 and aa == 0 else "w%d-sign-boundary" % w)
                    elif fl == 2:
                        hit("w%d-not-consulted" % w)
                    else:
                        hit("w%d-holds" % w)
                if e[17] > 0:
                    hit("avg-growth" if e[16] > 0 and e[16] == e[18] else "avg-zero" if e[16] == 0 and e[18] == 0 else "avg-sign-boundary")
                else:
                    hit("avg-no-time")
    need = ["start", "read-started", "read-refused", "zero-counter", "avg-growth", "avg-zero", "avg-sign-boundary", "avg-no-time",
            "w1-not-consulted", "w2-not-consulted"]
    for w in range(3):
        need += ["w%d-samples" % w, "w%d-growth" % w, "w%d-zero" % w, "w%d-sign-boundary" % w, "w%d-holds" % w]
    missing = [k for k in need if not seen.get(k)]
    if missing:
        raise vlib.Broken("generated behaviours never contain: %s" % missing)
    return seen


LIFE_STATES = ("new", "running", "closed-unstarted", "closed-after-start", "restarted")


def life_classes(path):
    """Vacuity guard for the lifecycle family: every accessor is read in every lifecycle state, with the class the
    state implies; a running meter is read with a non-zero rate and a non-zero average."""
    seen = {}
    n = 0

    def hit(k):
        seen[k] = seen.get(k, 0) + 1
    with open(path) as f:
        for line in f:
            c = json.loads(line)
            if c["fam"] != "life":
                continue
            n += 1
            started = closed = ever = False
            for e in c["h"]:
                if e[0] == 1:
                    started = ever = True
                elif e[0] == 2:
                    closed, started = True, False
                    hit("close")
                elif e[0] == 0:
                    if closed:
                        raise vlib.Broken("lifecycle case observes a closed meter: %r" % c)
                    hit("observe-" + ("running" if started else "unstarted"))
                elif e[0] == 3:
                    st = ("restarted" if started else "closed-after-start" if ever else "closed-unstarted") if closed else \
                         ("running" if started else "new")
                    want = {"new": 0, "closed-unstarted": 0, "running": 1, "closed-after-start": 2, "restarted": 2}[st]
                    if e[3] != want or (want == 0 and e[2] != 0) or (want == 1 and e[2] != 1):
                        raise vlib.Broken("lifecycle case: read in state %s has class %d, ok %d: %r" % (st, e[3], e[2], c))
                    hit("read%d-%s" % (e[1], st))
                    if st == "running" and e[4] > 0:
                        hit("read%d-running-nonzero" % e[1])
    need = ["close", "observe-running", "observe-unstarted", "read1-running-nonzero", "read4-running-nonzero"]
    need += ["read%d-%s" % (i, st) for i in (1, 2, 3, 4) for st in LIFE_STATES]
    missing = [k for k in need if not seen.get(k)]
    if missing:
        raise vlib.Broken("lifecycle histories never contain: %s" % missing)
    seen["histories"] = n
    return seen


def life_selftest(ctx, cases):
    """The replayer must reject a lifecycle history whose expectation was corrupted: a read of a closed, never started
    meter marked 'must be answered', and a read of a running meter marked 'must be refused'."""
    picked = {}
    with open(cases) as f:
        for line in f:
            c = json.loads(line)
            if c["fam"] != "life":
                continue
            kinds = [e[0] for e in c["h"]]
            if "a" not in picked and kinds[:2] == [2, 3]:
                bad = json.loads(line)
                bad["h"][1][2], bad["h"][1][3] = 1, 1
                picked["a"] = (c, bad)
            if "b" not in picked and kinds[:2] == [1, 3]:
                bad = json.loads(line)
                bad["h"][1][2], bad["h"][1][3] = 0, 0
                picked["b"] = (c, bad)
            if len(picked) == 2:
                break
    if len(picked) != 2:
        raise vlib.Broken("self-test: no lifecycle history Close;Read / Start;Read")
    path = os.path.join(ctx.out, "selftest_life.ndjson")
    with open(path, "w") as f:
        for k in ("a", "b"):
            for c in picked[k]:
                f.write(json.dumps(c) + "\n")
    r = ctx.replay("kxps", path, again=0)
    # a replayer that compares nothing accepts a history AND its corruption; if only the corruption is accepted the library
    # under test behaves like the corruption, which is the main stage's verdict to give
    for k in (0, 2):
        if r[k]["ok"] and r[k + 1]["ok"]:
            raise vlib.Broken("self-test: a lifecycle history is accepted with its read class and with the opposite one: %r" % r[k + 1])


def binding_selftest(ctx, cases):
    """Corrupt one expected value of one behaviour: the replayer must reject it (guards against a replayer that compares nothing)."""
    picked = None
    with open(cases) as f:
        for line in f:
            c = json.loads(line)
            for e in c["h"]:
                if e[0] == 0 and e[7] == 1 and e[10] > 0 and e[10] == e[13]:
                    e[10] += 1000
                    e[13] += 1000
                    picked = c
                    break
            if picked:
                break
    if not picked:
        raise vlib.Broken("self-test: no behaviour with a sampling 10 s window")
    path = os.path.join(ctx.out, "selftest.ndjson")
    with open(path, "w") as f:
        f.write(json.dumps(picked) + "\n")
    r = ctx.replay("kxps", path)
    # only an ACCEPTED corruption shows a replayer that compares nothing; a rejection for another reason means the
    # library under test already misbehaves on this behaviour, which is the main stage's verdict to give
    if r[0]["ok"]:
        raise vlib.Broken("self-test: a behaviour with a corrupted expected rate was not rejected: %r" % r[0])


def run(ctx):
    quick = ctx.tier == "quick"
    ctx.rule = ("a case is one behaviour of the meter specification (Start + a sequence of (dt, counter move) observations, "
                "dt in {0,1,5000,9999,10000,11000,30000,301000} ms, moves {+0,+1,+1000,-5,:=0,:=2^16-2,+2^15} on a 16-bit model counter) "
                "with the expected three rates and the average after every observation; TLC enumerates every behaviour of the "
                "time family (17 letters, depth %d), the counter family (21 letters, depth %d) and the public-API family "
                "(4 letters, depth 3, Start at any position)%s; MC: time alphabet (24 letters) and wrap alphabet (28/35 letters) to depth 4/3 (quick) or 5/4 (thorough) "
                "without Close, and the whole lifecycle (Start, Close, reads at any point) over 15 letters to depth 3 (quick) or 4 (thorough); each behaviour is replayed 4 times (hook + identity counter, hook + counter x 2^48, "
                "public Kbps, public Krps); lifecycle family: every history of length %d over {Start, Close, Observe(10 s, +1000), read of the "
                "10 s / 30 s / 300 s rate / average} (Start only on a meter whose started flag is off, Observe only on a meter that is not closed) "
                "is replayed call by call on the public Kbps and Krps meters (Start = hook flag, sampling = hook with injected clock) and, if it "
                "has no observation, once more with the real Start(); a read must be refused if Start was never called (new, or closed without a "
                "start), answered with the specification's value if the meter is running, and is not judged beyond finite/non-negative after "
                "Start..Close or Close..Start; distinct = distinct behaviours"
                % ((4, 3, "", 5) if quick else (5, 4, ", plus seeded simulation of 5000 behaviours of 40 observations over the full 56-letter product", 6)))
    ctx.exhaustive = True
    ctx.assumptions += [
        "the sampling step is driven through the verif hook with an injected clock (the public API samples from a goroutine on a 10 s wall-clock timer); "
        "real Start() is exercised only on meters whose counter stays 0 (family api, and the lifecycle histories without observations)",
        "every observation is followed by a read of the average at the same instant, so the average's baseline (taken by the library at the "
        "first read that sees a non-zero counter) is the first non-zero observation the property speaks of",
        "which windows sample at an observation follows the library's rule that the property anchors as its mechanism: no sampling while the counter "
        "is 0; the first non-zero observation starts all windows; a window is consulted only if every shorter window sampled (cascade); it samples iff "
        ">= its length has elapsed since its previous sample; growth is divided by the window length, not by the elapsed time; a window that does not "
        "sample keeps its rate",
        "counter differences are modelled in Z/2^16 as signed numbers (replayed x 2^48 = the real uint64/int64 arithmetic); where a move crosses the sign "
        "boundary (growth >= half the range, or a wrap-around) the property does not say which reading of 'increase' is meant: both the modular-signed "
        "value and the plain-number value are accepted there, everything else is compared to 1e-12 relative",
        "at an instant with no time elapsed since the first non-zero observation the average is only required to be finite and non-negative",
        "the public Average() reads the real clock: its value is checked against the bracket given by clock readings before and after the call (monotonic clock, no tolerance on time)",
        "lifecycle: the package says 'When closed, this kbps should never use again'; the property only demands refusal while Start was never "
        "called. What a meter that was started and then closed, or closed and then started, answers to a read is specified as the library does it "
        "(refused / answered) but not judged, except that a returned value must be finite and non-negative; what Close() returns is not judged; "
        "a second Start on a running meter is not exercised; that Close ends the sampling goroutine within its 10 s period is not observed",
    ]
    ctx.sany("kxps", "Kxps")
    ctx.sany("kxps", "Gen_Kxps")
    # MC: the property holds on the specification, all behaviours within the bounds (two factored alphabets)
    ctx.tlc("kxps", "MC_Kxps", "MC_Kxps_time.%s.cfg" % ctx.tier, timeout=800)
    ctx.tlc("kxps", "MC_Kxps", "MC_Kxps_wrap.%s.cfg" % ctx.tier, timeout=800)
    # ... and the lifecycle (Close at any point, Start after Close, reads in every state) over the small alphabet
    ctx.tlc("kxps", "MC_Kxps", "MC_Kxps_life.%s.cfg" % ctx.tier, timeout=800)
    if not quick:
        # action coverage, measured on the small configurations (-coverage slows the large ones fourfold)
        cov = {}
        for fam in ("time", "wrap"):
            info = ctx.tlc("kxps", "MC_Kxps", "MC_Kxps_%s.quick.cfg" % fam, name="MC_Kxps.coverage_%s" % fam, coverage=True, count_states=False)
            cov[fam] = actions_covered(info)
        info = ctx.tlc("kxps", "MC_Kxps", "MC_Kxps_life.quick.cfg", name="MC_Kxps.coverage_life", coverage=True, count_states=False)
        cov["life"] = actions_covered(info, ("Observe", "Start", "Close", "ReadRate"))
        ctx.notes["mc_action_coverage"] = cov
    # non-vacuity: each named deviation is caught by the invariant / action property that states the clause it breaks
    for dev, inv in DEVIATIONS:
        ctx.tlc("kxps", "MC_Kxps", "MC_Kxps_dev_%s.cfg" % dev, expect_violation=inv, count_states=False, workers=1)
    # GEN: whole behaviours with expectations
    cases = os.path.join(ctx.out, "cases.ndjson")
    ctx.tlc("kxps", "Gen_Kxps", "Gen_Kxps_api.cfg", cases_to=cases, count_states=False)
    ctx.tlc("kxps", "Gen_Kxps", "Gen_Kxps_life.%s.cfg" % ctx.tier, cases_to=cases, count_states=False)
    ctx.tlc("kxps", "Gen_Kxps", "Gen_Kxps_counter.%s.cfg" % ctx.tier, cases_to=cases, count_states=False, timeout=800)
    ctx.tlc("kxps", "Gen_Kxps", "Gen_Kxps_time.%s.cfg" % ctx.tier, cases_to=cases, count_states=False, timeout=800)
    if not quick:
        ctx.tlc("kxps", "Gen_Kxps", "Gen_Kxps_sim.cfg", cases_to=cases, simulate=5000, depth=42, count_states=False, timeout=800)
    ctx.notes["case_classes"] = case_classes(cases)
    ctx.notes["life_classes"] = life_classes(cases)
    binding_selftest(ctx, cases)
    life_selftest(ctx, cases)
    res = ctx.replay("kxps", cases)
    ctx.judge("kxps", cases, res)
