"""C20: rate meters report the counter's growth over the last full window (spec/kxps/Kxps.tla)."""
import os

DEVIATIONS = [  # (cfg suffix, property that must be reported violated)
    ("window_gt", "WindowRule"),
    ("elapsed_div", "RateDef"),
    ("unsigned_diff", "BackwardsZero"),
    ("unsigned_diff_sane", "Sane"),
    ("avg_late", "AvgDef"),
    ("read_unguarded", "StartedGuard"),
]


def run(ctx):
    quick = ctx.tier == "quick"
    ctx.rule = ("a case is one behaviour of the meter specification (Start + a sequence of (dt, counter move) observations, "
                "dt in {0,1,5000,9999,10000,11000,30000,301000} ms, moves {+0,+1,+1000,-5,:=0,:=2^16-2,+2^15} on a 16-bit model counter) "
                "with the expected three rates and the average after every observation; TLC enumerates every behaviour of the "
                "time family (17 letters, depth %d), the counter family (21 letters, depth %d) and the public-API family "
                "(4 letters, depth 3, Start at any position)%s; each is replayed 4 times (hook + identity counter, hook + counter x 2^48, "
                "public Kbps, public Krps); distinct = distinct behaviours"
                % ((4, 3, "") if quick else (5, 4, ", plus seeded simulation of 5000 behaviours of 40 observations over the full 56-letter product")))
    ctx.exhaustive = True
    ctx.assumptions += [
        "the sampling step is driven through the verif hook with an injected clock (the public API samples from a goroutine on a 10 s wall-clock timer); "
        "real Start() is exercised only on meters whose counter stays 0",
        "every observation is followed by a read of the average at the same instant, so the average's baseline (taken by the library at the "
        "first read that sees a non-zero counter) is the first non-zero observation the property speaks of",
        "which windows sample at an observation follows the library's rule that the property anchors as its mechanism: no sampling while the counter "
        "is 0; the first non-zero observation starts all windows; a window is consulted only if every shorter window sampled (cascade); it samples iff "
        ">= its length has elapsed since its previous sample; growth is divided by the window length, not by the elapsed time; a window that does not "
        "sample keeps its rate",
        "counter differences are modelled in Z/2^16 as signed numbers (replayed x 2^48 = the real uint64/int64 arithmetic); where a move crosses the sign "
        "boundary (growth >= half the range, or a wrap-around) the property does not say which reading of 'increase' is meant: both the modular-signed "
        "value and the plain-number value are accepted there, everything else is compared to 1e-12 relative",
        "at an instant with no time elapsed since the first non-zero observation the average is only required to be finite and non-negative",
        "the public Average() reads the real clock: its value is checked against the bracket given by clock readings before and after the call (monotonic clock, no tolerance on time)",
        "what a meter reports after Close() is not judged",
    ]
    ctx.sany("kxps", "Kxps")
    ctx.sany("kxps", "Gen_Kxps")
    # MC: the property holds on the specification, all behaviours within the bounds (two factored alphabets)
    ctx.tlc("kxps", "MC_Kxps", "MC_Kxps_time.%s.cfg" % ctx.tier, coverage=not quick, timeout=800)
    ctx.tlc("kxps", "MC_Kxps", "MC_Kxps_wrap.%s.cfg" % ctx.tier, coverage=not quick, timeout=800)
    # non-vacuity: each named deviation is caught by the invariant / action property that states the clause it breaks
    for dev, inv in DEVIATIONS:
        ctx.tlc("kxps", "MC_Kxps", "MC_Kxps_dev_%s.cfg" % dev, expect_violation=inv, count_states=False, workers=1)
    # GEN: whole behaviours with expectations
    cases = os.path.join(ctx.out, "cases.ndjson")
    ctx.tlc("kxps", "Gen_Kxps", "Gen_Kxps_api.cfg", cases_to=cases, count_states=False)
    ctx.tlc("kxps", "Gen_Kxps", "Gen_Kxps_counter.%s.cfg" % ctx.tier, cases_to=cases, count_states=False, timeout=800)
    ctx.tlc("kxps", "Gen_Kxps", "Gen_Kxps_time.%s.cfg" % ctx.tier, cases_to=cases, count_states=False, timeout=800)
    if not quick:
        ctx.tlc("kxps", "Gen_Kxps", "Gen_Kxps_sim.cfg", cases_to=cases, simulate=5000, depth=42, count_states=False, timeout=800)
    res = ctx.replay("kxps", cases)
    ctx.judge("kxps", cases, res)
