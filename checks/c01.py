"""C01: RTMP session round trip (spec/rtmp/RtmpSession.tla, chunk-level refinement RtmpChunk.tla)."""
import os


def run(ctx):
    t = ctx.tier
    ctx.rule = ("TLC enumerates every behaviour (sequence of writes of Set Chunk Size / data messages by either endpoint, lengths relative to the "
                "writer's current chunk size) of RtmpSession within the cfg bounds; each finished behaviour is replayed into two real "
                "rtmp.Protocol endpoints after the real handshake under whole/random/1-byte read segmentation and lock-step/deferred reads; "
                "a case is distinct if its write sequence differs")
    ctx.exhaustive = True
    ctx.assumptions += ["payload bytes are a position-dependent pattern, not all byte strings",
                        "2^24-1 byte payloads only in the thorough tier; 1-byte segmentation only for behaviours up to 20 kB, random up to 400 kB",
                        "messages are built with NewStreamMessage (chunk stream 5) or on chunk stream 2 for protocol control; chunk stream id 0/1 of NewMessage() is outside the property"]
    ctx.sany("rtmp", "RtmpSession")
    ctx.sany("rtmp", "RtmpChunk")
    # MC: the property on the specification
    ctx.tlc("rtmp", "MC_RtmpSession", "MC_Session_agree.cfg", coverage=(t == "thorough"))
    ctx.tlc("rtmp", "MC_RtmpSession", "MC_Session_bidir.cfg")
    ctx.tlc("rtmp", "MC_RtmpSession", "MC_Session_header.cfg")
    # non-vacuity: a writer that does not follow its own Set Chunk Size desynchronises the session
    ctx.tlc("rtmp", "MC_RtmpSession", "MC_Session_deviation.cfg", expect_violation="NoDesync", count_states=False)
    # chunk-level refinement of the library's writer (fmt 0 + fmt 3, no interleaving) against the reference receiver
    ctx.tlc("rtmp", "MC_RtmpChunk", "MC_Chunk_libwriter.cfg")
    ctx.tlc("rtmp", "MC_RtmpChunk", "MC_Chunk_libwriter_deviation.cfg", expect_violation="Agree", count_states=False)

    cases = os.path.join(ctx.out, "cases.ndjson")
    gens = ["Gen_Session_agree.%s.cfg" % t, "Gen_Session_single.cfg", "Gen_Session_pair.cfg", "Gen_Session_bidir.%s.cfg" % t]
    if t == "thorough":
        gens.append("Gen_Session_big.thorough.cfg")
    for g in gens:
        ctx.tlc("rtmp", "MC_RtmpSession", g, cases_to=cases, timeout=1200)
    if t == "thorough":
        ctx.exhaustive = False
        ctx.tlc("rtmp", "MC_RtmpSession", "Gen_Session_sim.cfg", cases_to=cases, simulate=1500, depth=40, workers=1, timeout=900)
    res = ctx.replay("session", cases, timeout=3000)
    ctx.judge("session", cases, res)
