"""C01: RTMP session round trip (spec/rtmp/RtmpSession.tla, chunk-level refinement RtmpChunk.tla)."""
import glob
import json
import os
import random

RACE = {"pair": True}


def _pairs(ctx, cases, path, n):
    """n pairs of different small behaviours of the case file (seeded): the input of the two-sessions-in-one-process stage"""
    small = []
    for line in open(cases):
        c = json.loads(line)
        if c["steps"] and sum(s["m"]["len"] for s in c["steps"]) <= 1200:
            small.append(line.strip())
    small.sort()
    if len(small) < 2 * n:
        n = len(small) // 2
    pick = random.Random(ctx.seed).sample(small, 2 * n)
    with open(path, "w") as f:
        for k in range(n):
            f.write('{"a":%s,"b":%s}\n' % (pick[2 * k], pick[2 * k + 1]))
    return n


def run(ctx):
    t = ctx.tier
    ctx.rule = ("TLC enumerates every behaviour (sequence of writes of Set Chunk Size / data messages by either endpoint, lengths relative to the "
                "writer's current chunk size; in the Gen_Session_hs cfgs also every order, up to commuting neighbours, of the two endpoints' six "
                "handshake calls and the first session writes that RTMP 1.0 5.2.1 allows) of RtmpSession within the cfg bounds; each finished "
                "behaviour is replayed in the order of its schedule into two real endpoints (rtmp.Handshake, then rtmp.Protocol) that share ONE "
                "byte stream per direction, under whole (as much as asked)/random/1-byte read segmentation and lock-step/deferred reads; "
                "every message written is read at once (lock-step) or after all writes, the reader then has read exactly the "
                "written sequence with nothing written behind its last message, and one more read finds no message; "
                "a case is distinct if its write sequence or its schedule differs")
    ctx.exhaustive = True
    ctx.assumptions += ["sessions of one process: pairs of small behaviours (payload sum <= 1200 bytes) run concurrently, a seeded sample, "
                        "not all pairs; interference is looked for between two Protocol pairs, not between Handshake objects",
                        "payload bytes are a position-dependent pattern, not all byte strings",
                        "handshake calls are made in an order RTMP 1.0 5.2.1 allows (S0 after C0, C2 after S1, S2 after C1, session data only "
                        "after the own handshake); one Handshake object per endpoint; the replay is single-threaded, a read is only called "
                        "when its bytes are in the transport",
                        "2^24-1 byte payloads only in the thorough tier; 1-byte segmentation only for behaviours up to 20 kB, random up to 400 kB",
                        "message types: all that RTMP 1.0 defines (1-9, 15-20, 22); protocol-control bodies well-formed with position-pattern content "
                        "(an Abort names no chunk stream with a pending message: the library's writer never interleaves)",
                        "messages are built with NewStreamMessage (chunk stream 5) or on chunk stream 2 for protocol control; chunk stream id 0/1 of NewMessage() is outside the property"]
    def tlc(*a, **kw):
        kw.setdefault("jopts", ["-Xmx3g"])      # shared machine: every TLC run has a heap cap
        return ctx.tlc(*a, **kw)

    ctx.sany("rtmp", "RtmpSession")
    ctx.sany("rtmp", "RtmpChunk")
    # MC: the property on the specification
    tlc("rtmp", "MC_RtmpSession", "MC_Session_agree.cfg", coverage=(t == "thorough"))
    tlc("rtmp", "MC_RtmpSession", "MC_Session_bidir.cfg")
    # (the header family - every message type x stream-id class x timestamp class as the only, hence last, message - is
    # model-checked by its generation run Gen_Session_single.cfg below; likewise the ctl family by Gen_Session_ctl)
    # non-vacuity: a writer that does not follow its own Set Chunk Size desynchronises the session
    tlc("rtmp", "MC_RtmpSession", "MC_Session_deviation.cfg", expect_violation="NoDesync", count_states=False)
    # handshake and session on one byte stream per direction: every interleaving of the two endpoints' six handshake calls and of the
    # first session messages that RTMP 1.0 5.2.1 allows; each handshake read takes exactly its 1/1536 bytes (HsExact)
    tlc("rtmp", "MC_RtmpSession", "MC_Session_hs.cfg")
    # non-vacuity: a handshake read through a buffer of its own takes what the peer wrote behind the packet
    tlc("rtmp", "MC_RtmpSession", "MC_Session_hs_deviation.cfg", expect_violation="HsExact", count_states=False)
    # non-vacuity: a reader that follows only the Set Chunk Size on message stream 0 while the writer follows every one
    tlc("rtmp", "MC_RtmpSession", "MC_Session_scssid_deviation.cfg", expect_violation="NoDesync", count_states=False)
    # non-vacuity: a writer that keeps an Acknowledgement in its buffer until the next message: the last one never arrives
    tlc("rtmp", "MC_RtmpSession", "MC_Session_lazyflush_deviation.cfg", expect_violation="AllDelivered", count_states=False)
    # chunk-level refinement of the library's writer (fmt 0 + fmt 3, no interleaving) against the reference receiver
    tlc("rtmp", "MC_RtmpChunk", "MC_Chunk_libwriter.cfg")
    tlc("rtmp", "MC_RtmpChunk", "MC_Chunk_libwriter_deviation.cfg", expect_violation="Agree", count_states=False)

    cases = os.path.join(ctx.out, "cases.ndjson")
    gens = ["Gen_Session_agree.%s.cfg" % t, "Gen_Session_single.cfg", "Gen_Session_pair.cfg", "Gen_Session_bidir.%s.cfg" % t,
            "Gen_Session_hs.%s.cfg" % t, "Gen_Session_ctl.%s.cfg" % t]
    if t == "thorough":
        gens.append("Gen_Session_big.thorough.cfg")
    for g in gens:
        tlc("rtmp", "MC_RtmpSession", g, cases_to=cases, timeout=1200)
    if t == "thorough":
        ctx.exhaustive = False
        tlc("rtmp", "MC_RtmpSession", "Gen_Session_sim.cfg", cases_to=cases, simulate=1500, depth=40, workers=1, timeout=900)
        # random long behaviours in which the handshake calls of both endpoints and the first session writes interleave
        tlc("rtmp", "MC_RtmpSession", "Gen_Session_hssim.cfg", cases_to=cases, simulate=600, depth=40, workers=1, timeout=900)
    res = ctx.replay("session", cases, timeout=3000)
    ctx.judge("session", cases, res)

    # NoSharedState (RtmpSession.tla): the specification is one session; a process runs many.  Two behaviours of the case file
    # are replayed at the same time in one process, turns changing at every transport read (1-byte / random segmentation), under
    # the race detector: a wrong message in either session or a race report inside package rtmp is a failing result.
    pairs = os.path.join(ctx.out, "pairs.ndjson")
    npairs = _pairs(ctx, cases, pairs, 300 if t == "quick" else 1500)
    racedir = os.path.join(ctx.out, "race")
    os.makedirs(racedir, exist_ok=True)
    for fn in glob.glob(os.path.join(racedir, "race*")):
        os.remove(fn)
    gorace = {"GORACE": "log_path=%s/race halt_on_error=0 exitcode=0" % racedir}
    os.environ.update(gorace)       # also for re-runs of the stage
    pres = ctx.replay("pair", pairs, race=True, timeout=1200, env_extra=gorace)
    ctx.judge("pair", pairs, pres, race=True, reproduce=False)   # strict-alternation pairs are deterministic; a race report is evidence in itself
    reports = []
    for fn in glob.glob(os.path.join(racedir, "race*")):
        for blk in open(fn, errors="replace").read().split("=================="):
            if "DATA RACE" in blk and "go-oryx-lib/rtmp" in blk:
                reports.append(blk.strip())
    ctx.notes["session_pairs"] = npairs
    ctx.notes["race_reports"] = len(reports)
    if reports:
        ctx.fail_results.append(("pair", {"race": True}, {"ok": False, "deviation": "C01/sessions-share-state",
                                                          "what": "race detector, two sessions in one process: " + reports[0][:1500]}))
