"""C01: RTMP session round trip (spec/rtmp/RtmpSession.tla, chunk-level refinement RtmpChunk.tla)."""
import os


def run(ctx):
    t = ctx.tier
    ctx.rule = ("TLC enumerates every behaviour (sequence of writes of Set Chunk Size / data messages by either endpoint, lengths relative to the "
                "writer's current chunk size; in the Gen_Session_hs cfgs also every order, up to commuting neighbours, of the two endpoints' six "
                "handshake calls and the first session writes that RTMP 1.0 5.2.1 allows) of RtmpSession within the cfg bounds; each finished "
                "behaviour is replayed in the order of its schedule into two real endpoints (rtmp.Handshake, then rtmp.Protocol) that share ONE "
                "byte stream per direction, under whole (as much as asked)/random/1-byte read segmentation and lock-step/deferred reads; "
                "a case is distinct if its write sequence or its schedule differs")
    ctx.exhaustive = True
    ctx.assumptions += ["payload bytes are a position-dependent pattern, not all byte strings",
                        "handshake calls are made in an order RTMP 1.0 5.2.1 allows (S0 after C0, C2 after S1, S2 after C1, session data only "
                        "after the own handshake); one Handshake object per endpoint; the replay is single-threaded, a read is only called "
                        "when its bytes are in the transport",
                        "2^24-1 byte payloads only in the thorough tier; 1-byte segmentation only for behaviours up to 20 kB, random up to 400 kB",
                        "messages are built with NewStreamMessage (chunk stream 5) or on chunk stream 2 for protocol control; chunk stream id 0/1 of NewMessage() is outside the property"]
    ctx.sany("rtmp", "RtmpSession")
    ctx.sany("rtmp", "RtmpChunk")
    # MC: the property on the specification
    ctx.tlc("rtmp", "MC_RtmpSession", "MC_Session_agree.cfg", coverage=(t == "thorough"))
    ctx.tlc("rtmp", "MC_RtmpSession", "MC_Session_bidir.cfg")
    ctx.tlc("rtmp", "MC_RtmpSession", "MC_Session_header.cfg")
    # non-vacuity: a writer that does not follow its own Set Chunk Size desynchronises the session
    ctx.tlc("rtmp", "MC_RtmpSession", "MC_Session_deviation.cfg", expect_violation="NoDesync", count_states=False)
    # handshake and session on one byte stream per direction: every interleaving of the two endpoints' six handshake calls and of the
    # first session messages that RTMP 1.0 5.2.1 allows; each handshake read takes exactly its 1/1536 bytes (HsExact)
    ctx.tlc("rtmp", "MC_RtmpSession", "MC_Session_hs.cfg")
    # non-vacuity: a handshake read through a buffer of its own takes what the peer wrote behind the packet
    ctx.tlc("rtmp", "MC_RtmpSession", "MC_Session_hs_deviation.cfg", expect_violation="HsExact", count_states=False)
    # chunk-level refinement of the library's writer (fmt 0 + fmt 3, no interleaving) against the reference receiver
    ctx.tlc("rtmp", "MC_RtmpChunk", "MC_Chunk_libwriter.cfg")
    ctx.tlc("rtmp", "MC_RtmpChunk", "MC_Chunk_libwriter_deviation.cfg", expect_violation="Agree", count_states=False)

    cases = os.path.join(ctx.out, "cases.ndjson")
    gens = ["Gen_Session_agree.%s.cfg" % t, "Gen_Session_single.cfg", "Gen_Session_pair.cfg", "Gen_Session_bidir.%s.cfg" % t,
            "Gen_Session_hs.%s.cfg" % t]
    if t == "thorough":
        gens.append("Gen_Session_big.thorough.cfg")
    for g in gens:
        ctx.tlc("rtmp", "MC_RtmpSession", g, cases_to=cases, timeout=1200)
    if t == "thorough":
        ctx.exhaustive = False
        ctx.tlc("rtmp", "MC_RtmpSession", "Gen_Session_sim.cfg", cases_to=cases, simulate=1500, depth=40, workers=1, timeout=900)
        # random long behaviours in which the handshake calls of both endpoints and the first session writes interleave
        ctx.tlc("rtmp", "MC_RtmpSession", "Gen_Session_hssim.cfg", cases_to=cases, simulate=600, depth=40, workers=1, timeout=900)
    res = ctx.replay("session", cases, timeout=3000)
    ctx.judge("session", cases, res)
