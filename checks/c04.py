"""C04: request/response matching with concurrent reader and writer (spec/rtmp/RtmpTxnConc.tla)."""
import glob
import json
import os
import re

from concurrent.futures import ThreadPoolExecutor

from lib import vlib

RACE = {"sched": True, "stress": True, "aim_race": True}


def race_reports(d):
    out = []
    for f in glob.glob(os.path.join(d, "race*")):
        txt = open(f, errors="replace").read()
        for blk in txt.split("=================="):
            if "DATA RACE" in blk:
                out.append(blk.strip())
    return out


def validate_traces(ctx, tdir, parts):
    """code -> model: the recorded runs of all free-running stages in one TLC run of Trace_RtmpTxnConc.
    parts: [(stage, trace file, runs)]. A rejected run becomes a failing result of its stage.
    Next to it the binding self-test: one corrupted field of a recorded run must be rejected."""
    trace = os.path.join(tdir, "all.ndjson")
    bounds = []
    n = 0
    with open(trace, "w") as out:
        for stage, path, runs in parts:
            lines = open(path).read().splitlines()
            out.write("".join(l + "\n" for l in lines))
            bounds.append((n, n + len(lines), stage, runs))
            n += len(lines)
    lines = open(trace).read().splitlines()
    first = []
    for ln in lines[1:]:
        if '"reset"' in ln:
            break
        first.append(ln)
    first = [lines[0]] + first
    k = next(i for i, ln in enumerate(first) if '"lookup"' in ln)
    first[k] = first[k].replace('"ok"', '"fail"')
    bad = os.path.join(tdir, "corrupt.ndjson")
    with open(bad, "w") as f:
        f.write("\n".join(first) + "\n")

    def tl(name, path):
        return ctx.tlc("rtmp", "Trace_RtmpTxnConc", "Trace_RtmpTxnConc.cfg", name=name, files={"trace.ndjson": path}, workers=1,
                       count_states=False, allow_fail=True, timeout=600, dfs=True, jopts=["-Xmx3g"])
    with ThreadPoolExecutor(max_workers=2) as ex:
        fi = ex.submit(tl, None, trace)
        fs = ex.submit(tl, "Trace_selftest", bad)
        info, sinfo = fi.result(), fs.result()
    if not sinfo.get("rejected"):
        raise vlib.Broken("binding self-test: a trace with a corrupted lookup result was accepted")
    ctx.notes["binding_selftest"] = "corrupted lookup result rejected by Trace_RtmpTxnConc"
    ctx.notes["trace_events_validated"] = n
    if info.get("rejected"):
        m = re.search(r'REJECTED at trace line", (\d+)', info.get("tail", ""))
        if not m and not info.get("violated"):
            raise vlib.Broken("trace validation failed without a rejection point:\n" + info.get("tail", ""))
        line = int(m.group(1)) if m else -1
        stage = next((st for lo, hi, st, _ in bounds if lo < line <= hi), bounds[-1][2])
        ctxlines = lines[max(0, line - 8):line] if line > 0 else []
        ctx.fail_results.append((stage, {"trace_excerpt": ctxlines},
                                 {"ok": False, "what": "recorded execution is not a behaviour of RtmpTxnConc (a response to a request that was complete in the transport must be matched, once): "
                                  "rejected at trace line %d %s; invariant=%s" % (line, lines[line - 1] if 0 < line <= len(lines) else "", info.get("violated"))}))
    else:
        ctx.traces_validated += sum(r for _, _, _, r in bounds)


def run(ctx):
    t = ctx.tier
    ctx.rule = ("schedules: TLC enumerates every interleaving of the writer's steps (call, register, 1..3 transport writes per request, return), the peer's "
                "responses (incl. a duplicated one, sent as soon as the request is complete in the transport) and the reader's read+lookup for 1-3 requests; "
                "each is forced onto a real rtmp.Protocol with a gated transport (no sleeps; an independent chunk stream parser tells which write completes a "
                "request) and every lookup outcome compared; sized: the schedules x request sizes below/around/far above a 4 KB write buffer x output chunk "
                "sizes 128/4096/65536/1048576; ids: the schedules x classes of transaction ids that are distinct AMF0 numbers but equal under a lossy conversion "
                "(same integral part, < 1, 2^32 apart, equal as float32, around 2^53, beyond int64, adjacent doubles), every response decoded as ITS request's type; stress: free-running writer/reader goroutines under -race with the peer answering from inside the completing transport "
                "write on a seeded fraction of requests; aim: one outstanding request, request i+1 sent a swept, feedback-centred delay after the transport "
                "handed response i to the reader (with and without -race); recorded runs validated by TLC against Trace_RtmpTxnConc")
    ctx.exhaustive = True
    ctx.assumptions += ["marshal/register/entry of the first transport write of one WritePacket and read/lookup of one DecodeMessage cannot be separated without a hook inside "
                        "the library: they are adjacent in replayed schedules (TLC explores the split in MC; the aim stage sweeps the writer's registration over the reader's lookup)",
                        "the number of transport writes of a request is the library's choice: the model's parts are mapped onto the writes the gated transport sees",
                        "stress and aim runs cover the interleavings the Go runtime produces over seeds and the delay sweep (needs >= 2 CPUs)"]
    ctx.sany("rtmp", "RtmpTxnConc")

    racedir = os.path.join(ctx.out, "race")
    os.makedirs(racedir, exist_ok=True)
    env = {"GORACE": "log_path=%s/race halt_on_error=0 exitcode=0" % racedir}

    if t == "quick":
        gens = ["Gen_TxnConc.quick.cfg", "Gen_TxnConc_nodup.quick.cfg", "Gen_TxnConc_parts.quick.cfg", "Gen_TxnConc_sized.quick.cfg",
                "Gen_TxnConc_ids.quick.cfg"]
    else:
        gens = ["Gen_TxnConc.thorough.cfg", "Gen_TxnConc_parts.quick.cfg", "Gen_TxnConc_parts.thorough.cfg",
                "Gen_TxnConc_sized.quick.cfg", "Gen_TxnConc_sized.thorough.cfg", "Gen_TxnConc_ids.quick.cfg", "Gen_TxnConc_ids.thorough.cfg"]
    # a transport write that fails (the only one / a later one of several), for a request re-using an outstanding id
    gens += ["Gen_TxnConc_fail.cfg", "Gen_TxnConc_failparts.quick.cfg"] + ([] if t == "quick" else ["Gen_TxnConc_failparts.cfg"])

    # the TLC runs are independent of each other: side by side (each small; the JVM start dominates)
    jobs = [
        dict(cfg="MC_TxnConc.cfg", coverage=(t == "thorough"), count=True),
        dict(cfg="MC_TxnConc_fail.cfg", count=True),
    ] + ([dict(cfg="MC_TxnConc_big.cfg", count=True)] if t == "thorough" else []) + [   # 4 requests, 2/1/3/2 transport writes, two answered twice
    ] + ([
        # the property itself needs no more than "registered before the COMPLETING transport write"
        dict(cfg="MC_TxnConc_beforelast.cfg", count=True)] if t == "thorough" else []) + [
        # named deviations: the invariants are not vacuous
        dict(cfg="MC_TxnConc_deviation.cfg", expect_violation="NoSpurious"),            # register-after-write
        dict(cfg="MC_TxnConc_dev_beforeflush.cfg", expect_violation="NoSpurious"),      # register-before-flush
        dict(cfg="MC_TxnConc_dev_lookupreset.cfg", expect_violation="NoSpurious"),      # lookup-then-reset
        dict(cfg="MC_TxnConc_dev_lossykey.cfg", expect_violation="RightType"),          # lossy-key
    ] + ([dict(cfg="MC_TxnConc_dev_lookupreset_loss.cfg", expect_violation="NoLoss"),
          dict(cfg="MC_TxnConc_dev_lossykey_spurious.cfg", expect_violation="NoSpurious")] if t == "thorough" else []) + [dict(cfg=g, cases_to=os.path.join(ctx.out, "cases_%d.ndjson" % k)) for k, g in enumerate(gens)]

    def one(j):
        j = dict(j)
        count = j.pop("count", False)
        info = ctx.tlc("rtmp", "MC_RtmpTxnConc", j.pop("cfg"), count_states=False, workers=2, jopts=["-Xmx2g"], **j)
        return count, info
    with ThreadPoolExecutor(max_workers=2) as ex:
        done = list(ex.map(one, jobs))
    for count, info in done:
        if count:
            ctx.states += info["distinct"]
            ctx.transitions += info["generated"]
    cases = os.path.join(ctx.out, "schedules.ndjson")
    with open(cases, "w") as f:
        for j in jobs:
            if "cases_to" in j:
                f.write(open(j["cases_to"]).read())
    res = ctx.replay("sched", cases, race=True, env_extra=env, again=(400 if t == "quick" else None))
    ctx.judge("sched", cases, res, race=True)

    # code -> model: recorded free-running executions
    sc = os.path.join(ctx.out, "stress.ndjson")
    runs = 12 if t == "quick" else 120
    nstress = 0
    with open(sc, "w") as f:
        for pc in (50, 100, 0, 20):
            f.write(json.dumps({"runs": runs, "n": 40, "ingate_pc": pc}) + "\n")
            nstress += runs
        # large requests under a large output chunk size: a request takes several transport writes
        for size, chunk in ((20000, 65536), (9000, 4096)):
            f.write(json.dumps({"runs": runs // 3, "n": 40, "ingate_pc": 60, "size": size, "chunk": chunk}) + "\n")
            nstress += runs // 3
    tdir = os.path.join(ctx.out, "traces")
    try:
        res = ctx.replay("stress", sc, race=True, dir=tdir, env_extra=env)
    except vlib.Broken as e:
        # the Go runtime aborts the process on unsynchronised map access: that is the library's data race, not a tool failure
        if "concurrent map" in str(e):
            ctx.fail_results.append(("stress", {"race": True}, {"ok": False, "deviation": "C04/data-race",
                                                                 "what": "Go runtime: " + str(e)[-1200:]}))
            ctx.evaluations += 1
            return
        raise
    ctx.judge("stress", sc, res, race=True, reproduce=False)
    parts = [("stress", os.path.join(tdir, "trace.ndjson"), nstress)]
    ctx.notes["stress_runs"] = nstress

    # aimed interleavings: the writer's registration of request i+1 swept over the reader's handling of response i
    # (thousands of rounds; a run = one connection with 40 requests; sweep width in ns x extra bytes in the responses x outstanding requests)
    aruns = 60 if t == "quick" else 600
    keep = 3 if t == "quick" else 20
    budget = 2000 if t == "quick" else 30000
    rounds = 0
    for race in (False, True):
        name = "aim_race" if race else "aim"
        ac = os.path.join(ctx.out, name + ".ndjson")
        with open(ac, "w") as f:
            for width, pad, depth in ((1500, 0, 1), (400, 0, 1), (4000, 600, 1), (1500, 0, 2)):
                f.write(json.dumps({"runs": (aruns // 2 if race else aruns), "n": 40, "width_ns": width * (4 if race else 1), "pad": pad,
                                    "depth": depth, "keep": keep, "budget_ms": budget, "min_runs": 8}) + "\n")
        adir = os.path.join(ctx.out, "traces_" + name)
        try:
            res = ctx.replay(name, ac, race=race, dir=adir, env_extra=env)
        except vlib.Broken as e:
            if "concurrent map" in str(e):
                ctx.fail_results.append((name, {"race": race}, {"ok": False, "deviation": "C04/data-race", "what": "Go runtime: " + str(e)[-1200:]}))
                ctx.evaluations += 1
                return
            raise
        for r in res:
            rounds += (r.get("info") or {}).get("rounds", 0)
            if not r["ok"]:
                # a second look: the same stage once more (the interleaving is the runtime's, not ours, to repeat)
                again = ctx.replay(name, ac, race=race, dir=os.path.join(ctx.out, "traces_again"), env_extra=env)
                r["what"] += " [stage run again: %s]" % ("failed again" if any(not x["ok"] for x in again) else "passed")
                break
        ctx.judge(name, ac, res, race=race, reproduce=False)
        parts.append((name, os.path.join(adir, "trace.ndjson"), sum((r.get("info") or {}).get("runs_in_trace", 0) for r in res)))
    ctx.notes["aim_rounds"] = rounds

    validate_traces(ctx, tdir, parts)

    # data-race clause
    reps = [r for r in race_reports(racedir) if "go-oryx-lib" in r]
    ctx.notes["race_reports"] = len(reps)
    if reps:
        ctx.fail_results.append(("stress", {"race": True}, {"ok": False, "deviation": "C04/data-race",
                                                             "what": "race detector: " + reps[0][:1500]}))
