"""C04: request/response matching with concurrent reader and writer (spec/rtmp/RtmpTxnConc.tla)."""
import glob
import json
import os
import re

from lib import vlib

RACE = {"sched": True, "stress": True}


def race_reports(d):
    out = []
    for f in glob.glob(os.path.join(d, "race*")):
        txt = open(f, errors="replace").read()
        for blk in txt.split("=================="):
            if "DATA RACE" in blk:
                out.append(blk.strip())
    return out


def run(ctx):
    t = ctx.tier
    ctx.rule = ("schedules: TLC enumerates every interleaving of the writer's steps (call, register, transport write, return), the peer's responses "
                "(incl. a duplicated one) and the reader's read+lookup for 2-3 requests; each is forced onto a real rtmp.Protocol with a gated "
                "transport (no sleeps) and every lookup outcome compared; stress: free-running writer/reader goroutines under -race with the peer "
                "answering from inside the transport write on a seeded fraction of requests, recorded and validated by TLC against Trace_RtmpTxnConc")
    ctx.exhaustive = True
    ctx.assumptions += ["marshal/register/transport-write entry of one WritePacket and read/lookup of one DecodeMessage cannot be separated without a hook inside the library: they are adjacent in replayed schedules (TLC explores the split in MC)",
                        "stress runs cover the interleavings the Go runtime produces over seeds"]
    ctx.sany("rtmp", "RtmpTxnConc")
    ctx.tlc("rtmp", "MC_RtmpTxnConc", "MC_TxnConc.cfg", coverage=(t == "thorough"))
    ctx.tlc("rtmp", "MC_RtmpTxnConc", "MC_TxnConc_fail.cfg")
    ctx.tlc("rtmp", "MC_RtmpTxnConc", "MC_TxnConc_deviation.cfg", expect_violation="NoSpurious", count_states=False)

    racedir = os.path.join(ctx.out, "race")
    os.makedirs(racedir, exist_ok=True)
    env = {"GORACE": "log_path=%s/race halt_on_error=0 exitcode=0" % racedir}

    cases = os.path.join(ctx.out, "schedules.ndjson")
    gens = ["Gen_TxnConc.quick.cfg", "Gen_TxnConc_nodup.quick.cfg"] if t == "quick" else ["Gen_TxnConc.thorough.cfg"]
    gens.append("Gen_TxnConc_fail.cfg")   # a transport write that fails, for a request re-using an outstanding id
    for g in gens:
        ctx.tlc("rtmp", "MC_RtmpTxnConc", g, cases_to=cases, count_states=False)
    res = ctx.replay("sched", cases, race=True, env_extra=env)
    ctx.judge("sched", cases, res, race=True)

    # code -> model: recorded free-running executions
    sc = os.path.join(ctx.out, "stress.ndjson")
    runs = 12 if t == "quick" else 120
    with open(sc, "w") as f:
        for pc in (50, 100, 0, 20):
            f.write(json.dumps({"runs": runs, "n": 40, "ingate_pc": pc}) + "\n")
    tdir = os.path.join(ctx.out, "traces")
    try:
        res = ctx.replay("stress", sc, race=True, dir=tdir, env_extra=env)
    except vlib.Broken as e:
        # the Go runtime aborts the process on unsynchronised map access: that is the library's data race, not a tool failure
        if "concurrent map" in str(e):
            ctx.fail_results.append(("stress", {"race": True}, {"ok": False, "deviation": "C04/data-race",
                                                                 "what": "Go runtime: " + str(e)[-1200:]}))
            ctx.evaluations += 1
            return
        raise
    ctx.judge("stress", sc, res, race=True, reproduce=False)
    trace = os.path.join(tdir, "trace.ndjson")
    nev = sum(1 for _ in open(trace))
    info = ctx.tlc("rtmp", "Trace_RtmpTxnConc", "Trace_RtmpTxnConc.cfg", files={"trace.ndjson": trace}, workers=1,
                   count_states=False, allow_fail=True, timeout=600, dfs=True)
    ctx.notes["trace_events_validated"] = nev
    ctx.notes["stress_runs"] = runs * 4
    if info.get("rejected"):
        m = re.search(r'REJECTED at trace line", (\d+)', info.get("tail", ""))
        if not m and not info.get("violated"):
            raise vlib.Broken("trace validation failed without a rejection point:\n" + info.get("tail", ""))
        line = int(m.group(1)) if m else -1
        lines = open(trace).read().splitlines()
        ctxlines = lines[max(0, line - 8):line] if line > 0 else []
        ctx.fail_results.append(("stress", {"trace_excerpt": ctxlines},
                                 {"ok": False, "what": "recorded execution is not a behaviour of RtmpTxnConc (register-before-write): rejected at trace line %d %s; invariant=%s"
                                  % (line, lines[line - 1] if 0 < line <= len(lines) else "", info.get("violated"))}))
    else:
        ctx.traces_validated += runs * 4

    # binding self-test: one corrupted field of a recorded run must be rejected
    lines = open(trace).read().splitlines()
    first = []
    for ln in lines[1:]:
        if '"reset"' in ln:
            break
        first.append(ln)
    first = [lines[0]] + first
    k = next(i for i, ln in enumerate(first) if '"lookup"' in ln)
    first[k] = first[k].replace('"ok"', '"fail"')
    bad = os.path.join(tdir, "corrupt.ndjson")
    with open(bad, "w") as f:
        f.write("\n".join(first) + "\n")
    sinfo = ctx.tlc("rtmp", "Trace_RtmpTxnConc", "Trace_RtmpTxnConc.cfg", name="Trace_selftest", files={"trace.ndjson": bad}, workers=1,
                    count_states=False, allow_fail=True, timeout=300, dfs=True)
    if not sinfo.get("rejected"):
        raise vlib.Broken("binding self-test: a trace with a corrupted lookup result was accepted")
    ctx.notes["binding_selftest"] = "corrupted lookup result rejected by Trace_RtmpTxnConc"

    # data-race clause
    reps = [r for r in race_reports(racedir) if "go-oryx-lib" in r]
    ctx.notes["race_reports"] = len(reps)
    if reps:
        ctx.fail_results.append(("stress", {"race": True}, {"ok": False, "deviation": "C04/data-race",
                                                             "what": "race detector: " + reps[0][:1500]}))
