"""C02: RTMP reader vs. spec-conformant chunk streams (spec/rtmp/RtmpChunk.tla)."""
import os

FAMILIES = ["ts", "mix", "scs", "forms", "violate"]


def run(ctx):
    t = ctx.tier
    ctx.rule = ("TLC enumerates every chunk sequence the ConformantSend actions of RtmpChunk can emit within each family's bounds (header type "
                "0-3 per message where section 5.3.1.2 allows it, basic-header forms, interleaving of chunk streams, Set Chunk Size between and "
                "inside messages, extended timestamps incl. deltas, librtmp ping form) plus one rule-breaking chunk; each finished wire is rendered to "
                "bytes by the specification's ChunkLD and fed to a real rtmp.Protocol under whole/random/1-byte segmentation; distinct = distinct wire")
    ctx.exhaustive = True
    ctx.assumptions += ["timestamps below 2^31 at the sender (a set top bit of a 32-bit extended timestamp is modelled as a flag)",
                        "no Abort messages; type 1/2 headers on continuation chunks are neither generated nor judged",
                        "extended timestamp is repeated in type-3 chunks (Adobe/FFmpeg behaviour, also the library writer's)"]
    ctx.sany("rtmp", "RtmpChunk")
    for f in FAMILIES:
        ctx.tlc("rtmp", "MC_RtmpChunk", "MC_Chunk_%s.cfg" % f, coverage=(t == "thorough" and f == "ts"))
    # non-vacuity: a receiver treating an extended delta as absolute time disagrees with the sender
    ctx.tlc("rtmp", "MC_RtmpChunk", "MC_Chunk_ts_deviation.cfg", expect_violation="DecodeOk", count_states=False)
    cases = os.path.join(ctx.out, "cases.ndjson")
    gens = list(FAMILIES) + ["tsmulti"] + (["scs3"] if t == "quick" else [])
    for f in gens:
        ctx.tlc("rtmp", "MC_RtmpChunk", "Gen_Chunk_%s.%s.cfg" % (f, t), cases_to=cases, timeout=1500, count_states=False)
    if t == "thorough":
        # many chunk streams on one connection (1100 streams, each used twice: fmt 0 then fmt 1)
        ctx.tlc("rtmp", "MC_RtmpChunk", "Gen_Chunk_many.cfg", cases_to=cases, timeout=600, count_states=False, workers=1)
    if t == "thorough":
        ctx.exhaustive = False
        ctx.tlc("rtmp", "MC_RtmpChunk", "Gen_Chunk_sim.cfg", cases_to=cases, simulate=3000, depth=60, workers=1, timeout=900)
    res = ctx.replay("chunks", cases, timeout=3000)
    ctx.judge("chunks", cases, res)
