"""C02: RTMP reader vs. spec-conformant chunk streams (spec/rtmp/RtmpChunk.tla)."""
import os
from concurrent.futures import ThreadPoolExecutor

FAMILIES = ["ts", "mix", "scs", "forms", "violate"]
# roll-over of the 31-bit timestamp: scripted chains of roll-overs on two chunk streams (wrapchain), all short histories
# over the timestamp classes just below 2^31 (wrap: 2 messages quick, 3 thorough), the same with messages of several
# chunks on two interleaved chunk streams (wrapmulti, thorough); family ts has the histories that start at 2^31 - 1
WRAP = {"quick": ["wrapchain", "wrap"], "thorough": ["wrapchain", "wrap", "wrapmulti"]}


def _same_model(ctx, mc_cfg, gen_cfg):
    """TRUE if the generation cfg is the MC cfg plus the emitting invariant (then the GEN run IS the MC run)."""
    d = os.path.join(os.path.dirname(os.path.dirname(os.path.abspath(__file__))), "spec", "rtmp")
    a = open(os.path.join(d, mc_cfg)).read().split()
    b = [w for w in open(os.path.join(d, gen_cfg)).read().split() if w != "Emit"]
    return a == b


def run(ctx):
    t = ctx.tier
    # a bounded heap per TLC run (the largest family needs well under 3 GB): the JVM default is a quarter of the machine
    def tlc(*a, **kw):
        kw.setdefault("jopts", ["-Xmx4g"])
        return ctx.tlc(*a, **kw)
    ctx.rule = ("TLC enumerates every chunk sequence the ConformantSend actions of RtmpChunk can emit within each family's bounds (header type "
                "0-3 per message where section 5.3.1.2 allows it, basic-header forms, interleaving of chunk streams, Set Chunk Size between and "
                "inside messages, extended timestamps incl. deltas, timestamps that pass 2^31 through plain and extended deltas and repeated type-3 "
                "deltas, librtmp ping form) plus one rule-breaking chunk; each finished wire is rendered to "
                "bytes by the specification's ChunkLD and fed to a real rtmp.Protocol under whole/random/1-byte segmentation; distinct = distinct wire")
    ctx.exhaustive = True
    ctx.assumptions += ["message timestamps are the 31-bit values the property defines; the sender's clock runs forward and may roll over: deltas are "
                        "taken mod 2^31, a step back of the 31-bit value is a roll-over (type 1/2/3 allowed) if it is less than 2^30 ms ahead, else "
                        "type 0 is required; a set top bit of a 32-bit extended type-0 timestamp is modelled as a flag",
                        "no Abort messages; type 1/2 headers on continuation chunks are neither generated nor judged",
                        "extended timestamp is repeated in type-3 chunks (Adobe/FFmpeg behaviour, also the library writer's)"]
    ctx.sany("rtmp", "RtmpChunk")
    merged = set()
    mc = []
    for f in FAMILIES:
        cov = (t == "thorough" and f == "ts")
        if not cov and _same_model(ctx, "MC_Chunk_%s.cfg" % f, "Gen_Chunk_%s.%s.cfg" % (f, t)):
            merged.add(f)       # same constants, same invariants: the generation run below is this model-checking run
            continue
        mc.append((f, cov))

    def model_checking():
        # specification-only runs (no cases): they go on beside the generation runs below
        infos = [tlc("rtmp", "MC_RtmpChunk", "MC_Chunk_%s.cfg" % f, coverage=cov, count_states=False) for f, cov in mc]
        # non-vacuity: a receiver treating an extended delta as absolute time disagrees with the sender
        tlc("rtmp", "MC_RtmpChunk", "MC_Chunk_ts_deviation.cfg", expect_violation="DecodeOk", count_states=False)
        # non-vacuity: a receiver that reduces to 31 bits only after an extended timestamp disagrees with the sender as
        # soon as a plain 24-bit delta carries the timestamp past 2^31
        tlc("rtmp", "MC_RtmpChunk", "MC_Chunk_wrap_deviation.cfg", expect_violation="DecodeOk", count_states=False)
        return infos

    cases = os.path.join(ctx.out, "cases.ndjson")
    gens = list(FAMILIES) + ["tsmulti"] + (["scs3"] if t == "quick" else []) + WRAP[t]
    with ThreadPoolExecutor(max_workers=1) as ex:
        fut = ex.submit(model_checking)
        for f in gens:
            tlc("rtmp", "MC_RtmpChunk", "Gen_Chunk_%s.%s.cfg" % (f, t), cases_to=cases, timeout=1500,
                count_states=(f in merged or f in WRAP[t]))
        for info in fut.result():
            ctx.states += info["distinct"]
            ctx.transitions += info["generated"]
    if t == "thorough":
        # many chunk streams on one connection (1100 streams, each used twice: fmt 0 then fmt 1)
        tlc("rtmp", "MC_RtmpChunk", "Gen_Chunk_many.cfg", cases_to=cases, timeout=600, count_states=False, workers=1)
    if t == "thorough":
        ctx.exhaustive = False
        tlc("rtmp", "MC_RtmpChunk", "Gen_Chunk_sim.cfg", cases_to=cases, simulate=3000, depth=60, workers=1, timeout=900)
    res = ctx.replay("chunks", cases, timeout=3000)
    ctx.judge("chunks", cases, res)
