"""C19: HTTP API envelope and the client half that reads it back (spec/http/HttpApi.tla)."""
import os

NONVACUITY = [
    ("MC_HttpApi_missingcode.cfg", "ClientNeverConfuses"),   # client treats a missing code as success
    ("MC_HttpApi_nonzero.cfg", "ClientNeverConfuses"),       # client accepts a non-zero code
    ("MC_HttpApi_cbctype.cfg", "EnvelopeWellFormed"),        # callback wraps but keeps the JSON content type
    ("MC_HttpApi_swallow.cfg", "UnmarshalableIsError"),      # marshal error swallowed: 200 with an empty body
    ("MC_HttpApi_constcode.cfg", "ErrorOwnCode"),            # error code replaced by a constant
    ("MC_HttpApi_nostatus.cfg", "ErrorOwnCode"),             # Status() of a plain error not applied
]


def run(ctx):
    ctx.rule = ("TLC enumerates the decision table of one request: answer kind (data, system / complex / application error, "
                "plain error, plain error with its own status) x the dimensions that kind reads (error code, status, message "
                "class, value class) x callback parameter (absent, empty, names) x configured Server header, and emits every row "
                "with the specification's expected response and client verdict; a case is distinct if its JSON differs. Every row "
                "is replayed through every public entry point producing that answer (recorder) and through ApiRequest (loopback server)")
    ctx.exhaustive = True
    ctx.assumptions += [
        "value classes are concretised by the replayer (fixed table of Go values with hand-written expected documents, plus seeded "
        "random JSON trees); the specification fixes marshalability and JSON type, encoding/json is trusted to parse the answers",
        "the text of a plain error is never itself a JSON object with numeric code 0 (ApiRequest does not look at the HTTP status)",
        "error codes fit Go's int (64 bit); the client's returned code is compared only up to 2^53 (it is read through float64)",
        "judged per the property only: success rows on status, Content-Type, Server header, wrapping and envelope; coded errors on "
        "the code member; plain errors on the HTTP status; unmarshalable values on 'is an error response'; the client's verdict on a "
        "JSONP-wrapped success is not judged",
    ]
    ctx.sany("http", "HttpApi")
    ctx.tlc("http", "MC_HttpApi", "MC_HttpApi.cfg", coverage=(ctx.tier == "thorough"))
    for cfg, inv in NONVACUITY:
        ctx.tlc("http", "MC_HttpApi", cfg, expect_violation=inv, count_states=False, workers=2)
    cases = os.path.join(ctx.out, "cases.ndjson")
    ctx.tlc("http", "Gen_HttpApi", "Gen_HttpApi.%s.cfg" % ctx.tier, cases_to=cases, timeout=600)
    res = ctx.replay("httpapi", cases)
    ctx.judge("httpapi", cases, res)

    # a server answers requests concurrently: every response is the envelope of its own request's value
    # (N goroutines x handlers with values only they use, under the race detector)
    import glob
    import json
    racedir = os.path.join(ctx.out, "race")
    os.makedirs(racedir, exist_ok=True)
    cc = os.path.join(ctx.out, "conc.ndjson")
    with open(cc, "w") as f:
        for g, it in ((4, 300), (16, 150), (32, 60)) if ctx.tier == "quick" else ((4, 3000), (16, 1500), (64, 500)):
            f.write(json.dumps({"goroutines": g, "iters": it}) + "\n")
    res = ctx.replay("httpconc", cc, race=True, env_extra={"GORACE": "log_path=%s/race halt_on_error=0 exitcode=0" % racedir})
    ctx.judge("httpconc", cc, res, race=True, reproduce=False)
    reports = []
    for fn in glob.glob(os.path.join(racedir, "race*")):
        for blk in open(fn, errors="replace").read().split("=================="):
            if "DATA RACE" in blk and "go-oryx-lib/http" in blk:
                reports.append(blk.strip())
    ctx.notes["concurrent_requests"] = sum((r.get("info") or 0) for r in res if isinstance(r.get("info"), int))
    ctx.notes["race_reports"] = len(reports)
    if reports:
        # a report of the race detector is evidence in itself (no false positives, both stacks shown)
        ctx.fail_results.append(("httpconc", {"race": True}, {"ok": False, "deviation": "C19/data-race",
                                                               "what": "race detector: " + reports[0][:1500]}))
