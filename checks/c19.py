"""C19: HTTP API envelope and the client half that reads it back (spec/http/HttpApi.tla)."""
import os
from concurrent.futures import ThreadPoolExecutor

from lib import vlib

NONVACUITY = [
    ("MC_HttpApi_missingcode.cfg", "ClientNeverConfuses"),   # client treats a missing code as success
    ("MC_HttpApi_nonzero.cfg", "ClientNeverConfuses"),       # client accepts a non-zero code
    ("MC_HttpApi_cbctype.cfg", "EnvelopeWellFormed"),        # callback wraps but keeps the JSON content type
    ("MC_HttpApi_swallow.cfg", "UnmarshalableIsError"),      # marshal error swallowed: 200 with an empty body
    ("MC_HttpApi_constcode.cfg", "ErrorOwnCode"),            # error code replaced by a constant
    ("MC_HttpApi_nostatus.cfg", "ErrorOwnCode"),             # Status() of a plain error not applied
    ("MC_HttpApi_firstcached.cfg", "ResponseOfCurrentValue"),  # handler object replays the response of its first request
    ("MC_HttpApi_statusshadows.cfg", "ErrorOwnCode"),        # an error with Code() AND Status() answered as a plain error
    ("MC_HttpApi_causedispatched.cfg", "ErrorOwnCode"),      # a wrapper of the errors package answered as its Cause()
]

# seeded random long lives of a handler object: (behaviours, TLC depth) per tier; MaxServes is in the cfg
HIST_SIM = {"quick": (200, 60), "thorough": (4000, 90)}


def run(ctx):
    ctx.rule = ("TLC enumerates the decision table of one request: answer kind (data, system / complex / application error, "
                "application error that also has Status(), plain error, plain error with its own status) x how the value handed "
                "to Error relates to that error (itself, pointer to the library's value type, struct embedding it, Wrap / "
                "WithMessage / WithStack of the errors package around it: the specification says what such a value IS to the "
                "type system and that an error which has its own code is answered with it) x the dimensions that kind reads "
                "(error code, status, message class, value class; the crossed rows over smaller sets) x callback parameter "
                "(absent, empty, names) x configured Server header, and emits every row "
                "with the specification's expected response and client verdict; a case is distinct if its JSON differs. Every row "
                "is replayed through every public entry point producing that answer (recorder) and through ApiRequest (loopback server). "
                "Life of a handler object: the answer is made ONCE (Data / Error / CplxError handler, or a function calling the Write* "
                "forms), registered on a ServeMux and served MaxServes times while the application changes the value behind the "
                "reference between requests (any class to any class, marshalable or not) and the callback varies per request; TLC "
                "enumerates all such behaviours over few classes (quick: 3 requests x 2 classes x 2 callbacks, thorough: 4 x 3 x 2; a "
                "mutation may also stay within the class: new version of the content) and "
                "simulates seeded long ones over the whole value table (8 / 12 requests); each request is judged by the row of the value "
                "behind the object AT THAT REQUEST (invariant ResponseOfCurrentValue)")
    ctx.exhaustive = True
    ctx.assumptions += [
        "value classes are concretised by the replayer (fixed table of Go values with hand-written expected documents, plus seeded "
        "random JSON trees); the specification fixes marshalability and JSON type, encoding/json is trusted to parse the answers",
        "the text of a plain error is never itself a JSON object with numeric code 0 (ApiRequest does not look at the HTTP status)",
        "which kind an error is, is decided by what the value handed to Error is to Go's type system: the concrete value types "
        "SystemComplexError / SystemError, else a method Code() int (an error that has its own code is answered with it, also when it "
        "has Status() too), else plain with its Status() or 500; a pointer to / a struct embedding the library's value types and a "
        "wrapper of the errors package (whatever its Cause() is) have neither the type nor the methods: plain, 500",
        "error codes fit Go's int (64 bit); the client's returned code is compared only up to 2^53 (it is read through float64)",
        "judged per the property only: success rows on status, Content-Type, Server header, wrapping and envelope; coded errors on "
        "the code member; plain errors on the HTTP status; unmarshalable values on 'is an error response'; the client's verdict on a "
        "JSONP-wrapped success is not judged",
        "life of a handler object: requests are served one after the other (no mutation while a request is in flight); the value is "
        "changed through the reference handed to Data (map members, *struct fields, *interface{}, slice elements, a json.Marshaler "
        "reading its present state) or, for the Write* forms, also by handing the present value at each request; errors are immutable "
        "(only the callback varies between requests); the Server header is configured once before the object is made",
    ]
    # ---- phase 1: the specification runs are independent of one another: side by side, with the harness builds
    quick = ctx.tier == "quick"
    pool = ThreadPoolExecutor(max_workers=2)      # shared machine: two TLC runs at a time, each with a heap cap
    cases = os.path.join(ctx.out, "cases.ndjson")
    hist = os.path.join(ctx.out, "hist.ndjson")
    simraw = os.path.join(ctx.out, "hist_sim_raw.ndjson")
    nsim, depth = HIST_SIM[ctx.tier]
    tw = 2 if quick else 4

    def tlc(*a, **kw):
        kw.setdefault("workers", tw)
        kw["count_states"] = False       # counted below, in this thread
        kw.setdefault("jopts", ["-Xmx2g"])
        return pool.submit(ctx.tlc, "http", *a, **kw)

    builds = ThreadPoolExecutor(max_workers=1)
    others = [pool.submit(ctx.sany, "http", "HttpApi"), builds.submit(ctx.go_build), builds.submit(ctx.go_build, True)]
    counted = [
        tlc("Gen_HttpApi", "Gen_HttpApi.%s.cfg" % ctx.tier, cases_to=cases, timeout=600),
        # life of a handler object: made once, served several times while the value behind it changes
        tlc("Gen_HttpApiHist", "Gen_HttpApiHist.%s.cfg" % ctx.tier, cases_to=hist, timeout=600),
        tlc("MC_HttpApi", "MC_HttpApi.cfg", coverage=not quick),
        # the life of one handler object: 3 (thorough: 4) requests, every mutation between them
        tlc("MC_HttpApi", "MC_HttpApi_hist.%s.cfg" % ctx.tier, coverage=not quick),
    ]
    others.append(tlc("Gen_HttpApiHist", "Gen_HttpApiHist_sim.%s.cfg" % ctx.tier, simulate=nsim, depth=depth, workers=1,
                      cases_to=simraw, timeout=600))
    for cfg, inv in NONVACUITY:
        others.append(tlc("MC_HttpApi", cfg, expect_violation=inv, workers=2))
    err = None
    for f in counted + others:
        try:
            info = f.result()
        except Exception as e:       # let the other runs end before reporting the first failure
            err = err or e
            continue
        if f in counted:
            ctx.states += info["distinct"]
            ctx.transitions += info["generated"]
    pool.shutdown()
    builds.shutdown()
    if err:
        raise err

    # ---- phase 2: replay on the real handlers
    res = ctx.replay("httpapi", cases)
    ctx.judge("httpapi", cases, res)

    n_exh = len(ctx.load_cases(hist))
    seen = set(ctx.load_cases(hist))
    nlong = 0
    with open(hist, "a") as f:
        for line in ctx.load_cases(simraw):      # in simulation mode a terminal state may be printed more than once
            if line not in seen:
                seen.add(line)
                f.write(line + "\n")
                nlong += 1
    os.remove(simraw)
    if n_exh == 0 or nlong < nsim // 2:
        raise vlib.Broken("history generation: %d exhaustive and %d simulated behaviours reached Finish (asked for %d)" % (n_exh, nlong, nsim))
    ctx.notes["handler_object_lives"] = {"exhaustive": n_exh, "simulated": nlong}
    # (the second pass of vlib looks for state kept across cases; here the history is in the case itself)
    res = ctx.replay("httphist", hist, again=300)
    ctx.judge("httphist", hist, res)

    # a server answers requests concurrently: every response is the envelope of its own request's value
    # (N goroutines x handlers with values only they use, under the race detector)
    import glob
    import json
    racedir = os.path.join(ctx.out, "race")
    os.makedirs(racedir, exist_ok=True)
    cc = os.path.join(ctx.out, "conc.ndjson")
    with open(cc, "w") as f:
        for g, it in ((4, 300), (16, 150), (32, 60)) if ctx.tier == "quick" else ((4, 3000), (16, 1500), (64, 500)):
            f.write(json.dumps({"goroutines": g, "iters": it}) + "\n")
    res = ctx.replay("httpconc", cc, race=True, env_extra={"GORACE": "log_path=%s/race halt_on_error=0 exitcode=0" % racedir})
    ctx.judge("httpconc", cc, res, race=True, reproduce=False)
    reports = []
    for fn in glob.glob(os.path.join(racedir, "race*")):
        for blk in open(fn, errors="replace").read().split("=================="):
            if "DATA RACE" in blk and "go-oryx-lib/http" in blk:
                reports.append(blk.strip())
    ctx.notes["concurrent_requests"] = sum((r.get("info") or 0) for r in res if isinstance(r.get("info"), int))
    ctx.notes["race_reports"] = len(reports)
    if reports:
        # a report of the race detector is evidence in itself (no false positives, both stacks shown)
        ctx.fail_results.append(("httpconc", {"race": True}, {"ok": False, "deviation": "C19/data-race",
                                                               "what": "race detector: " + reports[0][:1500]}))
