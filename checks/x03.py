"""X03 (extra check, not in properties.jsonl): the library's RTMP chunk WRITER against the chunk specification.

C02 binds the reader to spec/rtmp/RtmpChunk.tla, C01 binds writer and reader to each other; a deviation that is
symmetric between the library's writer and reader is invisible to both.  Here the bytes a real rtmp.Protocol writes
(WriteMessage / WritePacket) are tokenised by an independent tokenizer (harness/cmd/x03/tokenizer.go, grammar of
section 5.3.1 only) and validated, code -> model, by spec/rtmp/Trace_RtmpWriter.tla: every chunk must be a step of
RtmpChunk's ConformantSend that RtmpChunk's reference receiver RxStep accepts at the chunk size in force, and the
receiver must deliver exactly the messages the application wrote.
"""
import json
import os
import random
import re
import threading
from concurrent.futures import ThreadPoolExecutor

from lib import vlib

PART_LINES = 8000        # trace lines per TLC run (runs go in parallel, one worker each)
REPLAY_LOCK = threading.Lock()   # Ctx.replay numbers its result files with a plain counter
MAX_REJECTS = 3          # rejected sessions reported per part before giving up on it

# binding self-test: byte-level deviations applied to conformant bytes (written by the specification's own sender)
# -> reasons Trace_RtmpWriter may give (None: any)
DOCTORINGS = {
    "ext-timestamp-dropped": None,
    "ext-timestamp-dropped-c3": {"c3-ext-timestamp", "bytes-not-a-chunk"},
    "ext-timestamp-added": None,
    "timestamp-little-endian": {"timestamp-field", "ext-timestamp-below-threshold", "header-type-not-allowed"},
    "wrong-chunk-cut": None,
    "continuation-header-dropped": None,
    "stream-id-big-endian": {"stream-id-field"},
}
BASE_MSGS = [dict(id=1, type=9, sid=1, ts=16779216, len=300, scs=0),
                 dict(id=2, type=8, sid=1, ts=1000, len=300, scs=0),
                 dict(id=3, type=1, sid=0, ts=0, len=4, scs=100),
                 dict(id=4, type=18, sid=1, ts=16777215, len=250, scs=0)]

# outside the domain of the session generators (C01: lengths >= 1, messages built by NewStreamMessage / packets):
# recorded as observations, never as violations
PROBES = {
    "empty-message": [dict(m=dict(id=1, type=8, sid=1, ts=5, len=0, scs=0)), dict(m=dict(id=2, type=8, sid=1, ts=5, len=1, scs=0))],
    "newmessage-chunk-stream-0": [dict(m=dict(id=1, type=8, sid=0, ts=5, len=10, scs=0), raw=True)],
}


def shape(m):
    return (m["type"], m["sid"], m["ts"], m["len"], m.get("scs", 0))


def sessions_from_c01(path, tag, seen, out):
    """every endpoint of a RtmpSession behaviour is one writer session; identical write sequences once"""
    n = 0
    for i, line in enumerate(sorted(open(path))):      # TLC's workers print in no particular order
        case = json.loads(line)
        for e in ("A", "B"):
            msgs = [s["m"] for s in case["steps"] if s["e"] == e]
            if not msgs:
                continue
            key = tuple(shape(m) for m in msgs)
            if key in seen:
                continue
            seen.add(key)
            steps = []
            for k, m in enumerate(msgs):
                st = {"m": {f: m[f] for f in ("id", "type", "sid", "ts", "len", "scs")}}
                if m["type"] == 1 and (k + m["id"]) % 2 == 0:
                    st["viapkt"] = True      # the packet API and the raw message API must chunk alike
                if m["type"] >= 8:
                    st["cid"] = (0, 0, 63, 3)[(len(out) + k) % 4]   # 0: the library's choice (5)
                steps.append(st)
            out.append({"name": "%s#%d%s" % (tag, i, e), "steps": steps})
            n += 1
    return n


def sessions_from_packets(path, rng, out):
    pk = [json.loads(l)["p"] for l in sorted(open(path))]
    rng.shuffle(pk)
    ts_classes = [0, 1000, 16777214, 16777215, 16777216, 2147483647]
    n = 0
    for i in range(0, len(pk), 7):
        steps = [{"p": p, "sid": rng.choice([0, 1, 1, 16777217])} for p in pk[i:i + 7]]
        at = rng.randrange(len(steps) + 1)
        steps.insert(at, {"m": dict(id=90 + n % 7, type=rng.choice([8, 9, 18]), sid=1, ts=rng.choice(ts_classes),
                                    len=rng.choice([1, 129, 300, 4097]), scs=0)})
        out.append({"name": "pkts#%d" % n, "steps": steps})
        n += 1
    return n


def rejection(info):
    """(line, why, session) of a rejected trace, or None when the trace was accepted; anything else is a broken tool"""
    if not info.get("rejected"):
        return None
    txt = open(info["log"], errors="replace").read()
    m = re.search(r'"REJECTED at trace line",\s*(\d+),\s*"([^"]*)",\s*"([^"]*)"', txt)
    if not m or "Postcondition TraceAccepted" not in txt:
        raise vlib.Broken("trace validation failed without a rejection point (log %s):\n%s" % (info["log"], info.get("tail", "")))
    return int(m.group(1)), m.group(2), m.group(3)


def validate(ctx, name, lines, timeout=900):
    p = os.path.join(ctx.out, "trace_%s.ndjson" % name)
    with open(p, "w") as f:
        f.write("".join(lines))
    info = ctx.tlc("rtmp", "Trace_RtmpWriter", "Trace_RtmpWriter.cfg", name="Trace_" + name, files={"trace.ndjson": p}, workers=1,
                   count_states=False, allow_fail=True, timeout=timeout, jopts=["-Xmx3g"])
    return info, rejection(info)


def record(ctx, name, sessions):
    """write the sessions with the real writer; returns (results, trace lines)"""
    cp = os.path.join(ctx.out, "sessions_%s.ndjson" % name)
    with open(cp, "w") as f:
        for s in sessions:
            f.write(json.dumps(s) + "\n")
    d = os.path.join(ctx.out, "rec_" + name)
    with REPLAY_LOCK:
        res = ctx.replay("record", cp, dir=d, timeout=1500)
    if len(res) != len(sessions):
        raise vlib.Broken("record returned %d results for %d sessions" % (len(res), len(sessions)))
    return res, open(os.path.join(d, "trace.ndjson")).readlines()


def run(ctx):
    t = ctx.tier
    rng = random.Random(ctx.seed)
    ctx.rule = ("write sequences come from TLC (every behaviour of RtmpSession within the Gen_Session cfgs: Set Chunk Size announcements, lengths "
                "around the chunk size in force, timestamps around 0xFFFFFF, all header shapes; the packet matrix of RtmpPacket as real packets); a real "
                "rtmp.Protocol writes each through WriteMessage/WritePacket into a recording stream; the bytes are tokenised knowing only the grammar of "
                "section 5.3.1 and every session's chunk records are validated by TLC against Trace_RtmpWriter (ConformantSend as the sender, RxStep as "
                "the receiver, delivered = written); evaluations = sessions, distinct = distinct write sequences")
    ctx.exhaustive = (t == "quick")
    ctx.assumptions += ["timestamps below 2^31, message lengths >= 1, chunk stream ids 2..63 (what the public constructors produce); zero-length "
                        "messages and NewMessage() on chunk stream 0 are probed and reported as observations only",
                        "the extended timestamp is repeated in fmt-3 chunks (Adobe/FFmpeg behaviour modelled by RtmpChunk); the tokenizer frames "
                        "fmt-3 chunks accordingly",
                        "runs of identical full continuation chunks are run-length encoded by the recorder and taken arithmetically by the trace "
                        "specification (first and last chunk of every run position go through RxStep)",
                        "payload content is compared by the recorder (flag pm), the pattern is position dependent, not all byte strings"]
    ctx.sany("rtmp", "RtmpChunk")
    ctx.sany("rtmp", "Trace_RtmpWriter")
    ctx.sany("rtmp", "Gen_RtmpWriterPkts")

    # ---------------------------------------------------------------- sessions (model -> write sequences)
    gens = ["Gen_Session_agree.%s.cfg" % t, "Gen_Session_single.cfg", "Gen_Session_pair.cfg", "Gen_Session_bidir.%s.cfg" % t]
    if t == "thorough":
        gens.append("Gen_Session_big.thorough.cfg")
    sessions, seen, per_gen = [], set(), {}
    for g in gens:
        cp = os.path.join(ctx.out, "c01_%s.ndjson" % g)
        ctx.tlc("rtmp", "MC_RtmpSession", g, cases_to=cp, timeout=1200, count_states=False)
        per_gen[g] = sessions_from_c01(cp, g.split(".")[0].replace("Gen_Session_", ""), seen, sessions)
    if t == "thorough":
        cp = os.path.join(ctx.out, "c01_sim.ndjson")
        ctx.tlc("rtmp", "MC_RtmpSession", "Gen_Session_sim.cfg", cases_to=cp, simulate=1500, depth=40, workers=1, timeout=900)
        per_gen["sim"] = sessions_from_c01(cp, "sim", seen, sessions)
    pp = os.path.join(ctx.out, "packets.ndjson")
    ctx.tlc("rtmp", "Gen_RtmpWriterPkts", "Gen_WriterPkts.%s.cfg" % t, cases_to=pp, timeout=600, count_states=False)
    per_gen["packets"] = sessions_from_packets(pp, rng, sessions)
    sessions.append({"name": "fixed-base", "steps": [{"m": m} for m in BASE_MSGS]})
    ctx.notes["sessions_by_source"] = per_gen

    # ---------------------------------------------------------------- record (real writer -> bytes -> chunk records)
    res, lines = record(ctx, "main", sessions)
    ctx.evaluations += len(sessions)
    ctx.nontrivial += len(sessions)
    ctx.samples += [{"stage": "record", "case": sessions[0]}, {"stage": "record", "case": sessions[len(sessions) // 2]}]
    spans = []          # (session index, first line, last line) 0-based, half open
    for k, r in enumerate(res):
        if not r["ok"]:
            ctx.fail_results.append(("record", sessions[k], r))
            continue
        spans.append((k, r["info"]["first"] - 1, r["info"]["last"]))
    ctx.notes["chunks_on_the_wire"] = sum(r["info"]["chunks"] for r in res if r["ok"])
    ctx.notes["bytes_on_the_wire"] = sum(r["info"]["bytes"] for r in res if r["ok"])
    ctx.notes["trace_records"] = len(lines)

    # ---------------------------------------------------------------- validate (TLC), parts in parallel
    parts, cur, n = [], [], 0
    for sp in spans:
        cur.append(sp)
        n += sp[2] - sp[1]
        if n >= PART_LINES:
            parts.append(cur)
            cur, n = [], 0
    if cur:
        parts.append(cur)

    def reproduce(k, why):
        """the rejected session alone, recorded once more: the verdict must be the same"""
        r1, l1 = record(ctx, "repro%d" % k, [sessions[k]])
        _, rej = validate(ctx, "repro%d" % k, l1)
        if rej is None or rej[1] != why:
            raise vlib.Broken("rejection of session %s (%s) is not reproducible in isolation: %r" % (sessions[k]["name"], why, rej))
        return l1[rej[0] - 1].strip(), l1

    def check_part(pi):
        todo = parts[pi]
        found, accepted, rounds, nstates = [], 0, 0, 0
        while todo:
            sub = [ln for (_, a, b) in todo for ln in lines[a:b]]
            info, rej = validate(ctx, "p%d_%d" % (pi, rounds), sub)
            if rej is None:
                accepted += len(todo)
                nstates += info["distinct"]
                break
            line, why, sname = rej
            off = 0
            for j, (k, a, b) in enumerate(todo):
                if off + (b - a) >= line:
                    break
                off += b - a
            if sessions[k]["name"] != sname and sname != "-":
                raise vlib.Broken("rejection point of %s does not map back to its session (%s vs %s)" % (info["name"], sname, sessions[k]["name"]))
            accepted += j
            found.append((k, line - off, why, sub[line - 1].strip()))
            rounds += 1
            todo = todo[j + 1:]
            if rounds >= MAX_REJECTS:
                break
        return found, accepted, (len(todo) if rounds >= MAX_REJECTS else 0), nstates

    with ThreadPoolExecutor(max_workers=min(ctx.workers, 8)) as ex:
        outs = list(ex.map(check_part, range(len(parts))))
    unchecked = 0
    by_class = {}
    for found, accepted, skipped, nstates in outs:
        ctx.traces_validated += accepted
        ctx.states += nstates                # states = trace records TLC took as steps of the accepted parts
        ctx.transitions += nstates
        unchecked += skipped
        for f in found:
            by_class.setdefault(f[2], []).append(f)
    for why, lst in sorted(by_class.items()):
        k, rel, _, rec = lst[0]
        rec2, l1 = reproduce(k, why)
        for (k2, rel2, _, r2) in lst:
            ctx.fail_results.append(("record", sessions[k2], {
                "ok": False, "deviation": "X03/" + why,
                "what": "the writer's bytes are not a behaviour of RtmpChunk: session %s, record %d of the session rejected (%s): %s; messages written: %s"
                        % (sessions[k2]["name"], rel2, why, r2, json.dumps([s.get("m") or {"packet": s["p"]["k"], "sid": s["sid"]} for s in sessions[k2]["steps"]])[:600])}))
    if unchecked:
        ctx.notes["sessions_not_validated_after_rejections"] = unchecked
    ctx.notes["trace_parts"] = len(parts)

    # ---------------------------------------------------------------- loop model -> bytes -> tokenizer -> model, and binding self-test
    # wires written by the specification's own sender (every header type and basic-header form; what C02 feeds the reader)
    sw = os.path.join(ctx.out, "specwires.ndjson")
    for g in ("Gen_Chunk_x03lib.cfg", "Gen_Chunk_x03ts.cfg"):
        ctx.tlc("rtmp", "MC_RtmpChunk", g, cases_to=sw, timeout=600, count_states=False)
    wires = [json.loads(l) for l in sorted(open(sw))]
    for i, w in enumerate(wires):
        w["name"] = "specwire#%d" % i

    def specwire(name, cases):
        cp = os.path.join(ctx.out, "specwire_%s.ndjson" % name)
        with open(cp, "w") as f:
            for c in cases:
                f.write(json.dumps(c) + "\n")
        d = os.path.join(ctx.out, "sw_" + name)
        with REPLAY_LOCK:
            res = ctx.replay("specwire", cp, dir=d, timeout=900)
        return res, open(os.path.join(d, "trace.ndjson")).readlines()

    sres, slines = specwire("plain", wires)
    if not all(r["ok"] for r in sres):
        raise vlib.Broken("specwire: a conformant wire could not be recorded")
    dres, dlines = specwire("doctored", [dict(w, doctor=name, name="%s:%s" % (name, w["name"])) for name in sorted(DOCTORINGS) for w in wires])
    doctored = {}
    for k, r in enumerate(dres):
        name = sorted(DOCTORINGS)[k // len(wires)]
        if r["ok"] and len(doctored.setdefault(name, [])) < 2:
            doctored[name].append(dlines[r["info"]["first"] - 1:r["info"]["last"]])
    for name in DOCTORINGS:
        if not doctored.get(name):
            raise vlib.Broken("binding self-test: no conformant wire offers a chunk to apply %r to" % name)

    def loop(_):
        info, rej = validate(ctx, "specwires", slines)
        if rej is not None:
            raise vlib.Broken("the tokenizer + Trace_RtmpWriter reject a wire written by the specification's own sender: %r %s" % (rej, slines[rej[0] - 1]))
        return info

    def selftest(job):
        name, j, l1 = job
        _, rej = validate(ctx, "st_%s_%d" % (name, j), l1, timeout=300)
        if rej is None:
            raise vlib.Broken("binding self-test: a conformant wire doctored with %r was accepted by Trace_RtmpWriter: %s" % (name, "".join(l1)))
        if DOCTORINGS[name] and rej[1] not in DOCTORINGS[name]:
            raise vlib.Broken("binding self-test: doctoring %r rejected for an unexpected reason %r" % (name, rej[1]))
        return name, "record %d: %s" % (rej[0], rej[1])

    def probe(name):
        s = {"name": "probe:" + name, "steps": PROBES[name]}
        r1, l1 = record(ctx, "pr_" + name, [s])
        if not r1[0]["ok"]:
            return name, {"accepted": False, "why": r1[0].get("deviation"), "what": r1[0].get("what")}
        _, rej = validate(ctx, "pr_" + name, l1, timeout=300)
        if rej is None:
            return name, {"accepted": True}
        return name, {"accepted": False, "why": "X03/" + rej[1], "record": l1[rej[0] - 1].strip(), "messages": [x["m"] for x in PROBES[name]],
                      "trace": [x.strip() for x in l1]}

    with ThreadPoolExecutor(max_workers=min(ctx.workers, 12)) as ex:
        lp = ex.submit(loop, 0)
        stf = [ex.submit(selftest, (name, j, l1)) for name in sorted(DOCTORINGS) for j, l1 in enumerate(doctored[name])]
        prf = [ex.submit(probe, name) for name in sorted(PROBES)]
        linfo = lp.result()
        st = [f.result() for f in stf]
        pr = [f.result() for f in prf]
    ctx.notes["specwire_loop"] = {"wires_accepted": len(wires), "records": len(slines), "states": linfo["distinct"]}
    sel = {}
    for name, what in st:
        sel.setdefault(name, []).append("rejected at " + what)
    ctx.notes["binding_selftest"] = sel
    ctx.notes["observations"] = dict(pr)
    for name, o in pr:
        if not o["accepted"]:
            print("OBSERVATION check=X03 probe=%s (outside the checked domain, not a verdict): %s %s"
                  % (name, o.get("why"), o.get("record") or o.get("what") or ""))
