"""C03: RTMP packets (RtmpPacket.tla) and transaction matching / typed waits (RtmpTxn.tla)."""
import os


HEAP = ["-Xmx3g"]   # the machine is shared


def run(ctx):
    t = ctx.tier
    ctx.rule = ("packets: TLC enumerates the packet matrix (every kind x optional trailing values x value classes - every string field empty / one byte / "
                "the constructor's preset / other, every number 0 / preset / other, every value slot null / undefined / object / absent; all 65536 "
                "user-control event types) with layout, size, dispatch kind and field values; each packet is marshalled, unmarshalled into the "
                "constructor's packet and into a blank one, and sent to a peer that decodes it by DecodeMessage and by ExpectPacket, comparing every "
                "field, Size() and the re-marshalled payload; histories: TLC enumerates every behaviour of RtmpTxn (peer items first, then A's calls "
                "WritePacket / ReadMessage+DecodeMessage / ExpectPacket / ExpectMessage; typed waits for every control packet type and for command "
                "types while responses, duplicates and unsolicited responses arrive before the awaited packet) within the cfg bounds; each is replayed into real "
                "rtmp.Protocol endpoints comparing outcome and the outstanding-request table after every step; distinct = distinct JSON case")
    ctx.exhaustive = True
    ctx.assumptions += ["AMF0 command objects come from a small fixed family (empty, flat, nested, 65535-byte string in thorough)",
                        "_error responses and media before a typed packet wait are outside the property and not generated",
                        "Set Chunk Size 0 is not sent over the wire stage"]
    ctx.sany("rtmp", "RtmpTxn")
    ctx.tlc("rtmp", "MC_RtmpTxn", "MC_Txn.cfg", coverage=(t == "thorough"), jopts=HEAP)
    ctx.tlc("rtmp", "MC_RtmpTxn", "MC_Txn_deviation.cfg", expect_violation="MatchOnce", count_states=False, jopts=HEAP)
    # a typed wait for a control packet that passes over responses without decoding them
    ctx.tlc("rtmp", "MC_RtmpTxn", "MC_Txn_dev_waitskips.cfg", expect_violation="EveryResponseJudged", count_states=False, jopts=HEAP)
    # codec part: the journey of one packet (RtmpCodec) with the byte-level decoder of the specification
    ctx.sany("rtmp", "RtmpCodec")
    ctx.tlc("rtmp", "MC_RtmpCodec", "MC_Codec.cfg", coverage=(t == "thorough"), jopts=HEAP)
    devs = ["emptyabsent"] if t == "quick" else ["emptyabsent", "trustpreset", "zerokeeps"]
    for dev in devs:
        ctx.tlc("rtmp", "MC_RtmpCodec", "MC_Codec_dev_%s.cfg" % dev, expect_violation="FieldsSurvive", count_states=False, jopts=HEAP)
    pk = os.path.join(ctx.out, "packets.ndjson")
    ctx.tlc("rtmp", "Gen_RtmpPacket", "Gen_Packet.%s.cfg" % t, cases_to=pk, timeout=900, jopts=HEAP)
    res = ctx.replay("packets", pk)
    ctx.judge("packets", pk, res)
    hs = os.path.join(ctx.out, "histories.ndjson")
    for fam in ("thin", "full", "alt", "ctl"):
        ctx.tlc("rtmp", "MC_RtmpTxn", "Gen_Txn_%s.%s.cfg" % (fam, t), cases_to=hs, timeout=1500, count_states=False, jopts=HEAP)
    res = ctx.replay("history", hs)
    ctx.judge("history", hs, res)
