"""X04 (extra, not a listed property): the ACME v1 client https/acme against an ACME server (spec/acme/Acme.tla).

MC: the protocol properties hold on the specification for every server script of five factored families (nonce never
reused / only issued ones, no challenge response before Present returned, CleanUp after every outcome, new-cert only
with all authorizations valid, polling stops, the returned map = exactly the failed domains); six named deviations
are each caught by the invariant that states the clause they break.
GEN: the same TLC runs print every script (what the server will answer, what the provider does) as a case.
REPLAY (code -> model): the real package runs freely, under the race detector, against an in-process fake ACME server
that follows the script and records every request (JWS verified with the standard library), every provider callback,
every API call and return as ndjson events; Trace_Acme accepts or rejects each recorded session (linear: every event
is logged, `event \\in Allowed(s)`).  The binding is shown in every run: a reused nonce, a challenge response before
Present, a dropped CSR name and a missing CleanUp are planted into recorded sessions and TLC must reject exactly there.

Observations.  Where the package contradicts its documentation or the protocol, the documented behaviour is the
specification; the rejected sessions that match one of OBSERVATIONS are reported as `OBSERVATION` lines (evidence:
coverage.observations) and do not fail the run - there is no listed property to violate.  Every other rejected
session is a VIOLATION.  `X04_STRICT=1` turns the observations into violations.
"""
import json
import os
import re

from lib import vlib

RACE = {"acme": True}
STAGE = "acme"
LEVEL = "exploration"

OBSERVATIONS = {
    "X04/nonce-pool-unsynchronised":
        "protocol: a nonce is used at most once.  getChallenges posts new-authz for all domains from one goroutine each, and all of them "
        "take nonces from the same slice (jws.nonces) without synchronisation: the race detector reports jws.Nonce / getNonceFromResponse, "
        "and now and then two requests carry the same nonce (the server answers badNonce, the domain fails), a nonce the server "
        "handed out is lost (a HEAD where the client should hold one) or the pop panics (slice bounds out of range, the process dies)",
    "X04/authz-without-next-link-hangs":
        "documentation of ObtainCertificate: 'If one domain in the list fails, the whole certificate will fail' (a map of failures is "
        "returned).  Observed: a new-authz answer without Link rel=\"next\" makes the domain's goroutine return without reporting to either "
        "channel, getChallenges waits for len(domains) messages: ObtainCertificate never returns",
    "X04/certificate-poll-200-rejected":
        "protocol (draft-ietf-acme-acme-01 6.5): a certificate that was not ready with the 201 is fetched with GET from its URL, 202 + "
        "Retry-After while it is not there, 200 with the certificate when it is (RenewCertificate of the same package relies on that GET).  "
        "Observed: requestCertificate accepts only 201 / 202 in its polling loop; the 200 that delivers the certificate is treated as an "
        "error document and every domain is reported failed",
    "X04/renew-san-failure-swallowed":
        "documentation of RenewCertificate: 'this function will return a new certificate in ANY case that is not an error'.  Observed: it "
        "returns failures[cert.Domain]; when only another name of the certificate fails, the error is nil and the certificate empty",
    "X04/link-without-params-panics":
        "RFC 5988: link-value = \"<\" URI \">\" *( \";\" link-param ) - parameters are optional.  Observed: parseLinks indexes parts[1] of every "
        "Link header: a header without parameter next to the expected ones makes Register (and every other caller) panic with index out of range",
    "X04/no-combinations-unsolvable":
        "protocol: 'combinations' of an authorization is optional (the package itself marshals it with omitempty); without it the client "
        "completes the challenges offered.  Observed: chooseSolvers only looks at combinations: an authorization without them fails with "
        "'Could not determine solvers' although a solver for its only challenge is installed",
}

DEVIATIONS = [  # (cfg, invariant that must be reported violated)
    ("MC_Acme_dev_keep_nonce.cfg", "NonceNeverReused"),
    ("MC_Acme_dev_no_cleanup_on_fail.cfg", "CleanupAlways"),
    ("MC_Acme_dev_cert_despite_invalid.cfg", "CertOnlyIfAllValid"),
    ("MC_Acme_dev_racy_take.cfg", "NonceNeverReused"),
    ("MC_Acme_dev_poll_after_final.cfg", "PollStops"),
    ("MC_Acme_dev_respond_before_present.cfg", "RespondWhilePresented"),
]
FAMILIES = ["acct", "chal", "cert", "multi", "real"]
MAX_REPRO = 3
FIELDS = ("e", "a", "d", "c", "n", "rn", "st", "x")


def _gorace(d):
    return {"GORACE": "halt_on_error=0 exitcode=0 log_path=%s" % os.path.join(d, "race")}


# ----------------------------------------------------------------------------------------------- traces

class Trace:
    """A recorded batch: lines, sessions (start line, script) and lookups."""

    def __init__(self, path):
        self.path = path
        self.lines = [l for l in open(path) if l.strip()]
        self.evs = [json.loads(l) for l in self.lines]
        self.starts = [k for k, e in enumerate(self.evs) if e["e"] == "reset"]

    def session_of(self, k):
        """(index into starts, first line, script) of the session line k (0-based) belongs to"""
        s = max(j for j, st in enumerate(self.starts) if st <= k)
        return s, self.starts[s], self.evs[self.starts[s]]["sc"]

    def session_lines(self, s):
        a = self.starts[s]
        b = self.starts[s + 1] if s + 1 < len(self.starts) else len(self.evs) - 1
        return a, b


def validate(ctx, path, name):
    """Run Trace_Acme on a trace file: list of (line (1-based), session id, allowed events or text)."""
    info = ctx.tlc("acme", "Trace_Acme", "Trace_Acme.cfg", name=name, files={"trace.ndjson": path}, workers=1,
                   count_states=False, timeout=1500, jopts=["-Xmx6g"])
    verdict, rej = None, []
    for line in open(info["log"]):
        m = re.match(r'<<"TRACE", (\d+), (\d+), (\d+)>>', line)
        if m:
            verdict = tuple(int(x) for x in m.groups())
        m = re.match(r'<<"REJECT", (\d+), (\d+), (.*)>>\s*$', line)
        if m:
            allowed = json.loads(m.group(3))
            try:
                allowed = json.loads(allowed)
            except ValueError:
                pass
            rej.append((int(m.group(1)), int(m.group(2)), allowed))
    nlines = sum(1 for l in open(path) if l.strip())
    if not verdict or verdict[0] != nlines or verdict[1] != nlines:
        raise vlib.Broken("Trace_Acme did not consume the whole trace (%s of %d lines, log %s)" % (verdict, nlines, info["log"]))
    return rej, verdict[2]


def ev_text(e):
    x = dict((k, e.get(k)) for k in FIELDS)
    s = "%(e)s %(a)s" % x
    if e["e"] == "http":
        s = "request %s" % e["a"]
        if e["d"]:
            s += " domain %d" % e["d"]
        if e["c"]:
            s += " challenge %d" % e["c"]
        if e["n"] or e["a"] in ("new-reg", "reg", "new-authz", "chal", "new-cert", "revoke"):
            s += " with nonce #%d" % e["n"]
        s += " x=%s -> answer %s, Replay-Nonce #%d" % (json.dumps(e["x"]), e["st"], e["rn"])
    elif e["e"] == "cb":
        s = "provider.%s(domain %d, challenge %d) -> %s, arguments right: %s" % (
            {"present": "Present", "cleanup": "CleanUp"}.get(e["a"], e["a"]), e["d"], e["c"], e["st"], e["x"])
    elif e["e"] == "ret":
        s = "%s returned %s: failed domains %s, certificate %s, resource fields right: %s" % (e["a"], e["st"], e["x"][0], e["x"][1], e["x"][2])
    elif e["e"] == "hang":
        s = "%s never returns" % e["a"]
    elif e["e"] == "probe":
        s = "the server looks at the provider of domain %d challenge %d with the %s Host -> %s" % (e["d"], e["c"], e["a"], e["st"])
    if e.get("why"):
        s += " (%s)" % e["why"][:300]
    return s


def allowed_text(allowed):
    if not isinstance(allowed, list):
        return str(allowed)
    if not allowed:
        return "nothing (the session is over)"
    return " | ".join(ev_text(a) for a in allowed[:3]) + (" | ... (%d alternatives)" % len(allowed) if len(allowed) > 3 else "")


def classify(tr, k, allowed=None):
    """Name of the observation a rejected event (line k, 0-based) is an instance of, or None."""
    e = tr.evs[k]
    s, start, sc = tr.session_of(k)
    before = tr.evs[start + 1:k]
    calls = [j for j, b in enumerate(before) if b["e"] == "call"]
    this_call = before[calls[-1]:] if calls else []
    why = e.get("why") or ""
    if e["e"] == "hang" and e["a"] in ("obtain", "renew") and "nonext" in sc["az"] and "getChallenges" in why:
        answered = [b for b in this_call if b["e"] == "http" and b["a"] == "new-authz"]
        if len(answered) == sc["n"]:
            return "X04/authz-without-next-link-hangs"
    if e["e"] == "ret" and e["a"] == "register" and e["st"] == "panic" and sc["reg"] == "badlink" and "parseLinks" in why:
        return "X04/link-without-params-panics"
    if e["e"] == "ret" and e["a"] in ("obtain", "renew") and e["st"] == "err" and sc["cert"] == "d1-200":
        https = [b for b in this_call if b["e"] == "http"]
        if https and https[-1]["a"] == "certpoll" and https[-1]["st"] == "cert200" and sorted(e["x"][0]) in ([], list(range(1, sc["n"] + 1))):
            return "X04/certificate-poll-200-rejected"
    if e["e"] == "ret" and e["a"] == "renew" and e["st"] == "ok" and e["x"][1] == "none" and sc["n"] >= 2:
        failed = set(b["d"] for b in this_call if b["e"] == "http" and
                     ((b["a"] in ("chal", "chalpoll") and b["st"] not in ("valid", "pending")) or (b["a"] == "new-authz" and b["st"] != "ok")))
        failed |= set(b["d"] for b in this_call if b["e"] == "cb" and b["a"] == "present" and b["st"] != "ok")
        if failed and 1 not in failed:
            return "X04/renew-san-failure-swallowed"
    if e["e"] == "ret" and e["a"] in ("obtain", "renew") and e["st"] == "err" and "Could not determine solvers" in why:
        fl = e["x"][0] if e["a"] == "obtain" else [d for d in range(1, sc["n"] + 1) if sc["offer"][d - 1] == "nocombo"]
        if fl and all(sc["offer"][d - 1] == "nocombo" and "http-01" not in sc["excl"] for d in fl):
            return "X04/no-combinations-unsolvable"
    if e["e"] == "http" and sc["n"] >= 2:
        # the pool after (or during) a phase in which several goroutines used it without synchronisation
        authz = [b for b in before if b["e"] == "http" and b["a"] == "new-authz"]
        if e["st"] == "badnonce!" and e["n"]:
            # the same nonce twice: both takers, or at least the first, belong to a concurrent phase
            if any(b["n"] == e["n"] for b in authz) or (e["a"] == "new-authz" and any(b.get("n") == e["n"] for b in this_call if b["e"] == "http")):
                return "X04/nonce-pool-unsynchronised"
        if e["a"] == "head" and authz and isinstance(allowed, list) and allowed and all(a["e"] == "http" and a["n"] for a in allowed):
            # a nonce was lost (two appends on the same slice header): the client fetches one although it was given one
            return "X04/nonce-pool-unsynchronised"
    return None


# ----------------------------------------------------------------------------------------------- self-test

def _write(path, lines):
    with open(path, "w") as f:
        f.writelines(lines)
        f.write(json.dumps({"e": "eof"}) + "\n")
    return path


def self_test(ctx, traces, rejected):
    """Corrupt one recorded field of accepted sessions; Trace_Acme must reject each exactly at the corrupted event."""
    def find(pred):
        for tr in traces:
            for s in range(len(tr.starts)):
                a, b = tr.session_lines(s)
                if (tr.path, s) in rejected:
                    continue
                if pred(tr.evs[a]["sc"], tr.evs[a:b]):
                    return tr, a, b
        raise vlib.Broken("self-test: no accepted session to corrupt")

    def has(evs, **kw):
        return [j for j, e in enumerate(evs) if all(e.get(k) == v for k, v in kw.items())]

    tr1, a1, b1 = find(lambda sc, evs: sc["n"] == 1 and sc["real"] == "mock" and has(evs, e="http", a="chal", st="valid")
                       and has(evs, e="http", a="new-cert", st="cert") and has(evs, e="end"))
    tr2, a2, b2 = find(lambda sc, evs: sc["n"] == 2 and has(evs, e="http", a="new-cert") and has(evs, e="end"))
    tr3, a3, b3 = find(lambda sc, evs: sc["n"] == 1 and has(evs, e="http", a="chalpoll", st="invalid") and has(evs, e="end"))
    out, expect = [], {}

    def add(name, lines, at):
        base = len(out)
        out.extend(lines)
        if at is not None:
            expect[base + at + 1] = name

    s1 = tr1.lines[a1:b1]
    e1 = tr1.evs[a1:b1]
    add("unchanged", s1, None)
    # a reused nonce: the challenge response carries the nonce of the new-authz request
    j, jz = has(e1, e="http", a="chal")[0], has(e1, e="http", a="new-authz")[0]
    add("reused-nonce", s1[:j] + [json.dumps(dict(e1[j], n=e1[jz]["n"])) + "\n"] + s1[j + 1:], j)
    # the challenge response before Present returned
    p = has(e1, e="cb", a="present")[0]
    if j != p + 1:
        raise vlib.Broken("self-test: Present is not directly followed by the challenge response in the session to corrupt")
    add("respond-before-present", s1[:p] + [s1[j], s1[p]] + s1[j + 1:], p)
    # CleanUp skipped
    cu = has(e1, e="cb", a="cleanup")[0]
    add("cleanup-skipped", s1[:cu] + s1[cu + 1:], cu)
    # the key authorization built from another key
    x = list(e1[j]["x"])
    x[4] = False
    add("wrong-key-authorization", s1[:j] + [json.dumps(dict(e1[j], x=x)) + "\n"] + s1[j + 1:], j)
    # a JWS not signed by the account key
    x = list(e1[jz]["x"])
    x[0] = False
    add("bad-signature", s1[:jz] + [json.dumps(dict(e1[jz], x=x)) + "\n"] + s1[jz + 1:], jz)
    # a name dropped from the CSR
    s2, e2 = tr2.lines[a2:b2], tr2.evs[a2:b2]
    j = has(e2, e="http", a="new-cert")[0]
    x = list(e2[j]["x"])
    x[3] = x[3][:1]
    add("csr-name-dropped", s2[:j] + [json.dumps(dict(e2[j], x=x)) + "\n"] + s2[j + 1:], j)
    # a failed domain missing from the returned map
    s3, e3 = tr3.lines[a3:b3], tr3.evs[a3:b3]
    j = has(e3, e="ret", a="obtain")[0]
    add("failure-dropped", s3[:j] + [json.dumps(dict(e3[j], st="ok", x=[[], "none", True])) + "\n"] + s3[j + 1:], j)
    # polling goes on after invalid
    j = has(e3, e="http", a="chalpoll", st="invalid")[0]
    add("poll-after-invalid", s3[:j + 1] + [s3[j]] + s3[j + 1:], j + 1)

    path = _write(os.path.join(ctx.out, "selftest.ndjson"), out)
    rej, _ = validate(ctx, path, "Trace_Acme.selftest")
    got = dict((line, allowed) for line, _, allowed in rej)
    if set(got) != set(expect):
        raise vlib.Broken("self-test: corrupted events at lines %s (%s) but Trace_Acme rejected lines %s: the trace specification does not bind"
                          % (sorted(expect), [expect[k] for k in sorted(expect)], sorted(got)))
    return [expect[k] for k in sorted(expect)]


# ----------------------------------------------------------------------------------------------- run

def run(ctx):
    quick = ctx.tier == "quick"
    rounds = 3 if quick else 8
    ctx.rule = ("a case is one session of the real acme package (NewClient, Register, AgreeToTOS, ObtainCertificate for 1-%d domains, then "
                "RevokeCertificate / RenewCertificate / a second ObtainCertificate) against a fake ACME server that follows a script: the "
                "answer to new-reg, reg, every new-authz (ok / error / badNonce / no next link), the challenges and combinations offered, "
                "what the provider's Present / CleanUp do, how validation goes (valid, invalid, pending then ..., error, unexpected status), "
                "how the certificate is delivered (at once, 201 empty then 202... then 202 or 200, error), issuer link, revoke, renew, and "
                "which responses lack a Replay-Nonce header.  TLC enumerates every script of five factored families and model-checks the "
                "specification on each; the recorded session is accepted by Trace_Acme iff every request, provider callback and return is "
                "one the specification allows in that state.  Sessions with several domains are recorded %d times each; everything runs under "
                "the race detector; distinct = distinct scripts" % (2 if quick else 3, rounds))
    ctx.exhaustive = True
    ctx.assumptions += [
        "the server is a fake in the same process (net/http/httptest on loopback); it is trusted to follow the script and to record faithfully; "
        "its JWS check (ES256 / RS256, jwk = account key, RFC 7638 thumbprint) is standard library code written for the harness",
        "which of the nonces it holds the client uses is not fixed (any issued, unused one it has received); HEAD is expected only when it holds none "
        "(or while the authorizations are requested concurrently)",
        "Retry-After is 0 wherever the server sends it (the client sleeps Retry-After seconds; with the header missing it sleeps 1 s): waiting times are not judged",
        "schedules of the concurrent new-authz requests are sampled by the Go scheduler, not enumerated (exhaustive for the specification only)",
        "a call that never returns is recognised structurally (its goroutine parked on a channel inside package acme, no other goroutine of the "
        "package left, no request in flight), not by a timeout",
        "the CSR is parsed and its signature checked with crypto/x509; certificates come from a CA made for the session; PEM bundles are compared byte-wise "
        "with what the server issued",
        "tls-sni-01 / http-01 servers of the package listen on a free loopback port picked by the harness; dns-01 has no solver in this package",
    ]
    for m in ("MC_Acme", "Trace_Acme"):          # both extend Acme
        ctx.sany("acme", m)

    # MC + GEN: every script of a family is model-checked and printed as a case
    cases = {}
    for fam in (["all"] if quick else FAMILIES):     # quick: the union of the (smaller) families in one run
        cases[fam] = os.path.join(ctx.out, "cases_%s.ndjson" % fam)
        ctx.tlc("acme", "MC_Acme", "MC_Acme.%s.%s.cfg" % (fam, ctx.tier), cases_to=cases[fam], timeout=800)
    # non-vacuity: each named deviation is caught by the invariant that states the clause it breaks
    for cfg, inv in (DEVIATIONS[:3] if quick else DEVIATIONS):
        ctx.tlc("acme", "MC_Acme", cfg, expect_violation=inv, count_states=False, workers=2)

    scripts = []
    for fam in sorted(cases):
        got = sorted(ctx.load_cases(cases[fam]))
        if len(set(got)) != len(got) or not got:
            raise vlib.Broken("family %s: %d scripts, %d distinct" % (fam, len(got), len(set(got))))
        scripts += got
    seq = os.path.join(ctx.out, "scripts_seq.ndjson")
    conc = os.path.join(ctx.out, "scripts_conc.ndjson")
    nseq = nconc = 0
    with open(seq, "w") as fs, open(conc, "w") as fc:
        for sc in scripts:
            if json.loads(sc)["n"] == 1:
                fs.write(sc + "\n")
                nseq += 1
            else:
                for _ in range(rounds if json.loads(sc)["fam"] == "multi" else 2):
                    fc.write(sc + "\n")
                    nconc += 1
    ctx.notes["sessions"] = {"sequential": nseq, "concurrent": nconc, "rounds": rounds}

    # REPLAY: record the sessions under the race detector
    observations = {}

    def observe(key, stage, case, r):
        observations.setdefault(key, []).append((stage, case, r))

    def record(tag, path, base, chunk=400):
        """Record the sessions of a script file, `chunk` sessions per process (session ids from `base`); returns lines and results."""
        all_scripts = ctx.load_cases(path)
        lines, results = [], []
        for first in range(0, len(all_scripts), chunk):
            part = os.path.join(ctx.out, "scripts_%s_%d.ndjson" % (tag, first))
            with open(part, "w") as f:
                f.write("\n".join(all_scripts[first:first + chunk]) + "\n")
            d = os.path.join(ctx.out, "traces_%s_%d" % (tag, first))
            os.environ.update(_gorace(d))
            res = None
            for attempt in range(5):
                try:
                    res = ctx.replay(STAGE, part, race=True, dir=d, env_extra=_gorace(d), extra={"first": base + first})
                    break
                except (vlib.Broken, vlib.LibraryCrash):
                    err = getattr(ctx, "last_stderr", "") or ""
                    if "acme.(*jws).Nonce" in err and ("index out of range" in err or "slice bounds out of range" in err) and "panic" in err:
                        # the unsynchronised pop of the nonce slice, on a goroutine of the package: the process is gone
                        observe("X04/nonce-pool-unsynchronised", STAGE, {"batch": "%s+%d" % (tag, first)},
                                {"ok": False, "deviation": "X04/nonce-pool-unsynchronised",
                                 "what": "the process died: " + " ".join(err[err.find("panic"):].split())[:500]})
                        continue
                    raise
            if res is None:
                raise vlib.Broken("the replayer died 5 times in a row on batch %s+%d" % (tag, first))
            if "DATA RACE" in (ctx.last_stderr or ""):
                raise vlib.Broken("race report on stderr although GORACE log_path is set:\n%s" % ctx.last_stderr[-2000:])
            ctx.judge(STAGE, part, res, race=True, reproduce=False)
            for stage, case, r in ctx.fail_results:
                # a report of the race detector is evidence in itself (no false positives, both stacks)
                if r.get("deviation") in OBSERVATIONS:
                    observe(r["deviation"], stage, case, r)
                else:
                    keep.append((stage, case, r))
            ctx.fail_results[:] = []
            got = [l for l in open(res[0]["info"]["trace"]) if l.strip()]
            lines += got[:-1]       # without the closing eof
            results += res
        return lines, results

    keep = []
    lines, results = [], []
    for tag, path in (("seq", seq), ("conc", conc)):
        ls, res = record(tag, path, len(results), chunk=(600 if tag == "seq" else 400))
        lines += ls
        results += res
    tr = Trace(_write(os.path.join(ctx.out, "trace_all.ndjson"), lines))
    traces = [tr]
    if len(tr.starts) != len(results) or [tr.evs[k]["sess"] for k in tr.starts] != list(range(len(results))):
        raise vlib.Broken("%d sessions recorded for %d scripts" % (len(tr.starts), len(results)))

    # TRACE: every recorded session against the specification
    rejected = set()
    candidates = []
    kinds = {}
    for tr in traces:
        for e in tr.evs:
            if e["e"] in ("reset", "eof"):
                continue
            k = e["e"] + ":" + e["a"] + (":" + e["st"] if e["e"] in ("probe", "cb") or e["a"] in ("certpoll", "chalpoll", "head") else "")
            kinds[k] = kinds.get(k, 0) + 1
    need = ["http:head:ok", "http:new-reg", "http:reg", "http:new-authz", "http:chal", "http:chalpoll:pending", "http:chalpoll:valid",
            "http:chalpoll:invalid", "http:new-cert", "http:certpoll:empty", "http:certpoll:cert", "http:certpoll:cert200", "http:issuer",
            "http:revoke", "http:certget", "cb:present:ok", "cb:present:err", "cb:cleanup:ok", "cb:cleanup:err", "probe:right:ka",
            "probe:right:refused", "probe:wrong:other", "ret:obtain", "ret:renew", "ret:revoke", "end:"]
    ctx.notes["event_kinds"] = kinds
    ctx.notes["trace_events"] = sum(kinds.values())

    nsess = 0
    for tr in traces:
        tag = os.path.splitext(os.path.basename(tr.path))[0]
        rej, n = validate(ctx, tr.path, "Trace_Acme." + tag)
        nsess += n
        for line, sess, allowed in rej:
            k = line - 1
            s, start, sc = tr.session_of(k)
            rejected.add((tr.path, s))
            e = tr.evs[k]
            if e["e"] in ("reset", "eof"):
                raise vlib.Broken("session %d of %s was cut short (harness)" % (sess, tr.path))
            what = ("not allowed by the specification: %s.  Allowed there: %s.  [event %d of session %d, script %s]"
                    % (ev_text(e), allowed_text(allowed), k - start, sess, json.dumps(dict((a, b) for a, b in sc.items() if a != "fam"))))
            r = {"ok": False, "what": what, "observed": dict((f, e.get(f)) for f in FIELDS + ("why",)), "expected": allowed if isinstance(allowed, list) else [],
                 "deviation": classify(tr, k, allowed) or ""}
            if r["deviation"]:
                observe(r["deviation"], STAGE, sc, r)
            else:
                candidates.append((sc, r, e))
    ctx.traces_validated = nsess
    ctx.notes["sessions_rejected"] = len(rejected)

    # a rejected session that is no listed observation is a violation if it shows again in a fresh process
    seen = {}
    for sc, r, e in candidates:
        cls = (e["e"], e["a"], e["st"], json.dumps(sc.get("fam")))
        if cls in seen:
            if seen[cls]:
                keep.append((STAGE, sc, r))
            continue
        again = False
        if len(seen) < 6:
            single = os.path.join(ctx.out, "single_script.ndjson")
            with open(single, "w") as f:
                for _ in range(1 if sc["n"] == 1 else rounds):
                    f.write(json.dumps(sc) + "\n")
            for attempt in range(MAX_REPRO):
                d = os.path.join(ctx.out, "traces_repro")
                rr = ctx.replay(STAGE, single, race=True, dir=d, env_extra=_gorace(d))
                rj, _ = validate(ctx, rr[0]["info"]["trace"], "Trace_Acme.repro")
                if rj:
                    again = True
                    break
            if not again:
                raise vlib.Broken("a rejected session did not show again in %d fresh processes: %s" % (MAX_REPRO, r["what"][:600]))
        else:
            again = True
        seen[cls] = again
        keep.append((STAGE, sc, r))

    # the trace specification binds: planted corruptions must be rejected where they were planted
    # (with violations established, a self-test that finds no accepted session to corrupt does not hide them: see vcheck)
    ctx.fail_results = keep
    missing = [k for k in need if not kinds.get(k)]
    if missing:
        raise vlib.Broken("the recorded sessions never contain: %s" % missing)
    ctx.notes["self_tests"] = self_test(ctx, traces, rejected)

    # observations: reported, counted, not violations (unless X04_STRICT)
    if os.environ.get("X04_STRICT"):
        for k, lst in observations.items():
            ctx.fail_results += lst
        return
    notes = {}
    for n, (k, lst) in enumerate(sorted(observations.items())):
        stage, case, r = lst[0]
        rp = os.path.join(ctx.out, "observation-%d.json" % n)
        with open(rp, "w") as f:
            json.dump({"property": ctx.prop, "stage": stage, "seed": ctx.seed, "tier": ctx.tier, "case": case, "result": r}, f, indent=1)
        print("OBSERVATION property=%s %s (%d sessions this run) replay=%s" % (ctx.prop, k, len(lst), rp))
        print("  %s" % OBSERVATIONS[k])
        print("  e.g. %s" % (r.get("what") or "")[:900])
        notes[k] = {"cases": len(lst), "what": OBSERVATIONS[k], "example": {"case": case, "observed": r.get("what")}}
    ctx.notes["observations"] = notes
