"""C12: AVC configuration records, samples and NAL units (spec/avc/Avc.tla)."""
import os


def run(ctx):
    ctx.rule = ("TLC enumerates every value of the configured sets (records: 4 header triples x lengthSize 1..4 x SPS counts x PPS "
                "counts x NAL size patterns; samples; all 128 NAL unit values x payload lengths; all 256 header bytes x 3 lengths) "
                "and emits the value with its ISO layout; a case is distinct if its JSON differs")
    ctx.exhaustive = True
    ctx.assumptions += ["payload bytes are a position-dependent pattern, not all byte strings",
                        "profile_compatibility has no exported setter: API-built records are compared only when it is 0; other values go through unmarshal+marshal"]
    ctx.sany("avc", "Avc")
    ctx.tlc("avc", "MC_Avc", "MC_Avc.cfg", coverage=(ctx.tier == "thorough"))
    ctx.tlc("avc", "MC_Avc", "MC_Avc_noreserved.cfg", expect_violation="ReservedOk", count_states=False)
    cases = os.path.join(ctx.out, "cases.ndjson")
    ctx.tlc("avc", "Gen_Avc", "Gen_Avc.%s.cfg" % ctx.tier, cases_to=cases, timeout=1500)
    res = ctx.replay("avc", cases)
    ctx.judge("avc", cases, res)
