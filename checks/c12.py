"""C12: AVC configuration records, samples and NAL units (spec/avc/Avc.tla)."""
import os


def run(ctx):
    ctx.rule = ("TLC enumerates every value of the configured families (records: header triples x lengthSize 1..4 x SPS counts x PPS "
                "counts x cycled NAL size patterns; short SPS/PPS/sample lists with the size class of EVERY position chosen independently, "
                "for every length size; NAL lists whose payloads carry 00 00 01 / 00 00 00 01 at the start, in the middle, at the end and "
                "behind a zero header byte; the header matrix: all 256 values of each of profile / compatibility / level against classes "
                "of the other two; all 128 NAL unit values x payload lengths; all 256 header bytes x 3 lengths) and emits the value with "
                "its ISO layout; a case is distinct if its JSON differs")
    ctx.exhaustive = True
    ctx.assumptions += ["payload bytes are a position-dependent pattern, optionally with one Annex-B start code look-alike, not all byte strings",
                        "profile_compatibility has no exported setter: API-built records are compared only when it is 0; other values "
                        "are written by the specification and go through unmarshal (every exported field compared) + marshal",
                        "the header matrix crosses the full range of one byte with classes of the other two, not all 2^24 triples"]
    ctx.sany("avc", "Avc")
    heap = ["-Xmx3g"]
    ctx.tlc("avc", "MC_Avc", "MC_Avc.cfg", coverage=(ctx.tier == "thorough"), jopts=heap)
    # named deviations: on each of these configurations TLC must find the invariant violated (non-vacuity)
    ctx.tlc("avc", "MC_Avc", "MC_Avc_noreserved.cfg", expect_violation="ReservedOk", count_states=False, jopts=heap)
    ctx.tlc("avc", "MC_Avc", "MC_Avc_annexb.cfg", expect_violation="RoundTrip", count_states=False, jopts=heap)
    ctx.tlc("avc", "MC_Avc", "MC_Avc_refine.cfg", expect_violation="RoundTrip", count_states=False, jopts=heap)
    cases = os.path.join(ctx.out, "cases.ndjson")
    ctx.tlc("avc", "Gen_Avc", "Gen_Avc.%s.cfg" % ctx.tier, cases_to=cases, timeout=1500, jopts=heap)
    res = ctx.replay("avc", cases)
    ctx.judge("avc", cases, res)
