"""X01 (extra, not a listed property): the token-bucket limiter https/time/rate (spec/rate/RateLimiter.tla).

MC: the documented guarantees hold on the specification (bucket never above burst; Allow iff the refilled bucket
covers n; a reservation's delay is exactly the refill time; Inf always allows; limit 0 grants nothing uncovered; the
token-bucket bound burst + rate * (t2 - t1) over the Allow grants and over all events).
GEN -> replay: whole behaviours (calls with the `now` they pass and everything they return according to the
specification) are replayed on a real rate.Limiter; every returned value is compared.

Observations.  Where the library contradicts its own documentation the documented behaviour is the specification and
the replayer names the deviation.  There is no listed property to violate, so the deviations listed in OBSERVATIONS
are reported as `OBSERVATION` lines (evidence: coverage.observations) and do not make the run fail; everything else
that differs from the specification is a VIOLATION as usual.  `X01_STRICT=1` turns the observations into violations.
"""
import json
import os

from lib import vlib

OBSERVATIONS = {
    "X01/zero-limit-grants":
        "documentation: 'A zero Limit allows no events.'  Observed: with limit 0 AllowN(now, n) and ReserveN(now, n) grant every "
        "request of n <= burst at once, covered by the bucket or not (durationFromTokens divides by 0, float64 +Inf converted to "
        "time.Duration is negative on amd64, so the wait is 'not longer than' any maximum)",
    "X01/cancel-after-setlimit-exceeds-burst":
        "documentation: token bucket of size b (at most b + r*t tokens in any interval); CancelAt 'reverses the effects of this "
        "Reservation'.  Observed: if SetLimitAt raises the limit between ReserveN and CancelAt, a later reservation acts earlier "
        "than the cancelled one, lastEvent - timeToAct is negative and CancelAt restores MORE tokens than the reservation took: "
        "Allow then grants more than burst tokens at one instant",
    "X01/wait-inf-exceeds-burst":
        "documentation: 'Inf ... allows all events (even if burst is zero)', 'if r == Inf, b is ignored'.  Observed: WaitN(ctx, n) "
        "returns an error for n > burst also when the limit is Inf (AllowN and ReserveN grant the same request)",
}

DEVIATIONS = [  # (cfg, invariant that must be reported violated)
    ("MC_RateLimiter_dev_cancel_due.cfg", "EventBound"),
    ("MC_RateLimiter_dev_no_burst_cap.cfg", "TokensLeBurst"),
    ("MC_RateLimiter_dev_zero_limit_grants.cfg", "ZeroLimitNoGrant"),
    # the observation, on the specification of what the code does: the documented bound without a premise about SetLimitAt
    ("MC_RateLimiter_obs_cancel_after_setlimit.cfg", "AllowBoundDoc"),
]

API_CASES = ["every", "zero-value", "shorthands", "wait-exceeds-burst", "wait-cancelled-context", "wait-available",
             "wait-deadline", "wait-cancel-midway", "wait-short", "wait-inf"]


def case_classes(path, need, limit=400000):
    """Which situations the generated behaviours contain (vacuity guard for GEN)."""
    seen = {}

    def hit(k):
        seen[k] = seen.get(k, 0) + 1
    with open(path) as f:
        for n, line in enumerate(f):
            if n >= limit:
                break
            c = json.loads(line)
            hit("fam-" + c["fam"])
            if not c["mono"]:
                hit("clock-went-back")
            if not c["noinf"]:
                hit("inf")
            if c["crossed"]:
                hit("cancel-across-setlimit")
            if not c["bound"] and c["mono"] and c["noinf"]:
                hit("bound-broken")
            ncancel = 0
            for e in c["h"]:
                k = e[0]
                if k == 0:
                    hit("allow-true" if e[3] else "allow-false")
                elif k == 1:
                    if e[3] == 1:
                        hit("reserve-wait" if e[4] > 0 else "reserve-now")
                    elif e[3] == 0:
                        hit("reserve-refused")
                    else:
                        hit("reserve-never")
                elif k == 2:
                    ncancel += 1
                    hit("cancel")
                elif k == 3:
                    hit("setlimit")
                elif k == 4:
                    hit("delay-inf" if e[3] < 0 else "delay-later" if e[3] > 0 else "delay-zero")
                elif k == 5:
                    hit("probe-wait" if e[3] > 0 else "probe-full")
                    if e[3] % e[4]:
                        hit("probe-subtick")
                elif k == 6:
                    hit("drain")
            if ncancel >= 2:
                hit("two-cancels")
    missing = [k for k in need if not seen.get(k)]
    if missing:
        raise vlib.Broken("generated behaviours of %s never contain: %s" % (os.path.basename(path), missing))
    return seen


def binding_selftest(ctx, cases):
    """Corrupt one expected value of a behaviour (an Allow result, a delay, the probe): the replayer must reject each."""
    picked = {}
    with open(cases) as f:
        for line in f:
            c = json.loads(line)
            if c["fam"] == "crossed" or not c["bound"]:
                continue
            h = c["h"]
            for idx, e in enumerate(h):
                if e[0] == 0 and "allow" not in picked:
                    d = json.loads(line)
                    d["h"][idx][3] = 1 - e[3]
                    picked["allow"] = (d, "AllowN", c)
                if e[0] == 1 and e[3] == 1 and e[4] > 0 and "delay" not in picked:
                    d = json.loads(line)
                    d["h"][idx][4] = e[4] + e[5]      # one tick more
                    picked["delay"] = (d, "DelayFrom(now)", c)
                if e[0] == 5 and e[3] > 0 and "probe" not in picked and not any(x[0] == 1 and x[3] == 1 and x[4] > 0 for x in h):
                    d = json.loads(line)
                    d["h"][idx][3] = e[3] - 1         # one unit (1/8 token) more in the bucket
                    picked["probe"] = (d, "DelayFrom(now)", c)
            if len(picked) == 3:
                break
    if len(picked) != 3:
        raise vlib.Broken("self-test: no behaviour to corrupt for %s" % sorted(set(["allow", "delay", "probe"]) - set(picked)))
    path = os.path.join(ctx.out, "selftest.ndjson")
    order = sorted(picked)
    with open(path, "w") as f:
        for k in order:
            f.write(json.dumps(picked[k][2]) + "\n")   # the behaviour as generated
            f.write(json.dumps(picked[k][0]) + "\n")   # the same with one expectation corrupted
    res = ctx.replay("rate", path)
    for n, k in enumerate(order):
        orig, bad = res[2 * n], res[2 * n + 1]
        if not orig["ok"]:
            continue    # the library itself deviates on this behaviour: the replay of all cases reports it
        if bad["ok"] or picked[k][1] not in bad.get("what", ""):
            raise vlib.Broken("self-test: a behaviour with a corrupted expected %s was not rejected: %r" % (k, bad))


def set_aside_observations(ctx):
    """Failures that equal a named observation are reported, counted and (unless X01_STRICT) not treated as violations."""
    if os.environ.get("X01_STRICT"):
        return
    keep, obs = [], {}
    for stage, case, r in ctx.fail_results:
        k = r.get("deviation")
        if k in OBSERVATIONS:
            obs.setdefault(k, []).append((stage, case, r))
        else:
            keep.append((stage, case, r))
    ctx.fail_results = keep
    notes = {}
    for n, (k, lst) in enumerate(sorted(obs.items())):
        stage, case, r = lst[0]
        rp = os.path.join(ctx.out, "observation-%d.json" % n)
        with open(rp, "w") as f:
            json.dump({"property": ctx.prop, "stage": stage, "seed": ctx.seed, "tier": ctx.tier, "case": case, "result": r}, f, indent=1)
        print("OBSERVATION property=%s %s (%d cases this run) replay=%s" % (ctx.prop, k, len(lst), rp))
        print("  %s" % OBSERVATIONS[k])
        print("  e.g. stage=%s what=%s" % (stage, (r.get("what") or "")[:300]))
        notes[k] = {"cases": len(lst), "what": OBSERVATIONS[k], "example": {"case": case, "observed": r.get("what")}}
    ctx.notes["observations"] = notes


def run(ctx):
    quick = ctx.tier == "quick"
    ctx.rule = ("a case is one behaviour of the limiter specification: a limiter created with (limit, burst) and a sequence of calls "
                "AllowN / ReserveN / CancelAt / DelayFrom / SetLimitAt, each with the `now` it passes (125 ms ticks, forwards and "
                "backwards) and everything it returns according to the specification, closed by a probe ReserveN(now, burst) whose "
                "delay reveals the bucket's content to 1/8 token; TLC enumerates every behaviour of each family (fixed limit, "
                "SetLimitAt, Inf, clock going back, limit 0, cancel across SetLimitAt) to %s; "
                "distinct = distinct behaviours" % ("4-6 actions" if quick else "5-6 actions, plus 2 x 10000 seeded random behaviours of 40 actions"))
    ctx.exhaustive = True
    ctx.assumptions += [
        "limits are 1, 2 and 8 tokens/s (and 0, Inf), instants multiples of 125 ms, the bucket is counted in 1/8 tokens: every quantity the "
        "library computes in float64 is then a dyadic rational with a small numerator and its arithmetic is exact; rounding of "
        "durationFromTokens for other rates (e.g. 41 tokens at 10/s -> 4.099999999s) is not judged",
        "ReserveN is generated only where the waiting time is a whole number of ticks (the final probe needs no such restriction)",
        "a reservation is cancelled at most once; n >= 0; one goroutine (the mutex is not exercised)",
        "the token-bucket bound is claimed for monotone clocks and finite limits; with the clock going back the specification describes "
        "what the code does (a refused request moves `last` back, which refills the bucket twice) and only the returned values are compared",
        "Wait/Allow/Reserve/SetLimit/Cancel/Delay without a time argument read the real clock: bound by fixed scenarios on hourly limiters "
        "whose verdicts do not depend on how long a call takes",
    ]
    ctx.sany("rate", "Gen_RateLimiter")     # extends MC_RateLimiter and RateLimiter
    # MC: the guarantees hold on the specification, all behaviours within the bounds (factored families)
    # (quick: the setlimit family includes Inf; thorough: a family of its own)
    for fam in ("fixed", "setlimit", "back", "zero") + (() if quick else ("inf",)):
        ctx.tlc("rate", "MC_RateLimiter", "MC_RateLimiter_%s.%s.cfg" % (fam, ctx.tier), timeout=800,
                coverage=(not quick and fam in ("setlimit", "zero")))
    if not quick:
        dead = sorted(set(a for r in ctx.tlc_runs for a in r.get("actions_never_taken", [])))
        if dead:
            raise vlib.Broken("vacuous MC run: action(s) never taken: %s" % dead)
    # non-vacuity: each named deviation (and the observation) is caught by the invariant that states the clause it breaks
    for cfg, inv in DEVIATIONS:
        ctx.tlc("rate", "MC_RateLimiter", cfg, expect_violation=inv, count_states=False, workers=2)

    # GEN: whole behaviours with expectations
    cases = os.path.join(ctx.out, "cases.ndjson")
    zero = os.path.join(ctx.out, "cases_zero.ndjson")
    fams = ["fixed", "setlimit", "inf", "back"] + ([] if quick else ["fixed5"])
    for fam in fams:
        ctx.tlc("rate", "Gen_RateLimiter", "Gen_RateLimiter_%s.%s.cfg" % (fam, ctx.tier), cases_to=cases, count_states=False, timeout=800)
    ctx.tlc("rate", "Gen_RateLimiter", "Gen_RateLimiter_crossed.cfg", cases_to=cases, count_states=False)
    if not quick:
        for fam in ("sim", "simfwd"):
            ctx.tlc("rate", "Gen_RateLimiter", "Gen_RateLimiter_%s.cfg" % fam, cases_to=cases, simulate=2500, depth=45, workers=4,
                    count_states=False, timeout=800)
    ctx.tlc("rate", "Gen_RateLimiter", "Gen_RateLimiter_zero.%s.cfg" % ctx.tier, cases_to=zero, count_states=False, timeout=800)
    need = ["allow-true", "allow-false", "reserve-wait", "reserve-now", "reserve-refused", "cancel", "two-cancels", "setlimit",
            "delay-zero", "delay-later", "probe-wait", "probe-full", "probe-subtick", "clock-went-back", "inf",
            "cancel-across-setlimit", "bound-broken"] + ["fam-" + f for f in fams + ["crossed"]]
    ctx.notes["case_classes"] = case_classes(cases, need + ([] if quick else ["delay-inf", "fam-sim", "fam-simfwd"]), limit=10 ** 9)
    ctx.notes["case_classes_zero"] = case_classes(zero, ["reserve-never", "drain", "allow-false", "setlimit"], limit=10 ** 9)
    binding_selftest(ctx, cases)

    res = ctx.replay("rate", cases)
    ctx.judge("rate", cases, res)
    res = ctx.replay("rate", zero)
    ctx.judge("rate", zero, res)
    api = os.path.join(ctx.out, "cases_api.ndjson")
    with open(api, "w") as f:
        for k in API_CASES:
            f.write(json.dumps({"kind": k}) + "\n")
    res = ctx.replay("api", api)
    ctx.judge("api", api, res)
    set_aside_observations(ctx)
