"""C17: comment stripping never changes what a JSON document means (spec/json/JsonPlus.tla)."""
import os


def run(ctx):
    thorough = ctx.tier == "thorough"
    ctx.rule = ("matrix: TLC enumerates every document of the families of Gen_JsonPlus (every string body over the atom "
                "alphabet up to StrK atoms in 4 contexts, every block/line comment body over the 8 character classes up to ComK "
                "characters in 5 contexts, 3 strings x 3 comments x 3 placements, every <=3-item gap, 7 skeletons x every boundary, "
                "large-token documents); walk: TLC -simulate builds documents token by token and character by character and "
                "chooses the reads; a case is distinct if its JSON differs; each case is replayed in 2 concretisations x 4-5 "
                "segmentations x 2 APIs")
    ctx.exhaustive = True
    ctx.assumptions += [
        "characters are abstracted to 8 classes; per class the replayer uses several representatives (ASCII letters, digits, "
        "blank, CR, TAB, 2/3/4-byte UTF-8, all six JSON punctuation characters, every simple escape and \\uXXXX), not all of Unicode",
        "comments stand between tokens (never inside a scalar), as the property says; a raw newline cannot occur inside a JSON "
        "string literal, so class newline occurs only as white space and in/after comments",
        "segmentations: whole, whole with EOF on the same read, 1 byte per read, seeded random, and the Read(n) sequences the "
        "specification chose in walk mode - not all 2^(n-1) segmentations of every document (MC_JsonPlus checks all of them on the model)",
        "documents with a token above 64 KiB are replayed whole and with reads of 4096 / random <= 8192 bytes (65536 bytes above 300 KB), "
        "not byte by byte (the library rescans a token from its start after every read); the largest token tried is 2 MB (thorough) / 100 KiB (quick)",
    ]
    ctx.sany("json", "JsonPlus")
    ctx.sany("json", "Gen_JsonPlus")
    # the reference stripper is right on every small document under every segmentation
    ctx.tlc("json", "MC_JsonPlus", "MC_JsonPlus.cfg", coverage=thorough)
    if thorough:
        ctx.tlc("json", "MC_JsonPlus_big", "MC_JsonPlus_big.cfg", timeout=800)
    # ... and passing apostrophe-delimited regions through (as the library does) changes nothing on documents
    ctx.tlc("json", "MC_JsonPlus", "MC_JsonPlus_apos.cfg")
    # non-vacuity: the named deviation 'end-of-string search ignores backslash escapes' violates StripOk
    ctx.tlc("json", "MC_JsonPlus", "MC_JsonPlus_noescape.cfg", expect_violation="StripOk", count_states=False)

    cases = os.path.join(ctx.out, "cases.ndjson")
    ctx.tlc("json", "Gen_JsonPlus", "Gen_JsonPlus.%s.cfg" % ctx.tier, cases_to=cases, timeout=800)
    # random long documents with specification-chosen reads (num is per worker)
    walk = ctx.tlc("json", "Gen_JsonPlus", "Gen_JsonPlus.walk.cfg", cases_to=cases, timeout=600,
                   simulate=(2500 if thorough else 40), depth=1500)
    if walk["cases"] == 0:
        from lib import vlib
        raise vlib.Broken("walk mode produced no document")
    res = ctx.replay("jsonplus", cases)
    ctx.judge("jsonplus", cases, res)
