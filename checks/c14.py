"""C14: the WebSocket reader enforces the RFC 6455 framing rules and the read limit (spec/ws/WsReader.tla)."""
import os

from lib import vlib

QUICK = ["framing", "limit", "seq", "sizes", "header", "bufsize", "pmd"]
THOROUGH = ["framing", "framing4", "limit", "seq", "sizes", "header", "header1", "bufsize", "bufsizes", "pmd"]


def run(ctx):
    t = ctx.tier
    ctx.rule = ("TLC enumerates every sequence of frames an arbitrary peer can send within each family's alphabet and depth (framing: every "
                "rule of RFC 6455 section 5 one factor at a time, depth 3; limit: message sizes relative to the read limit incl. 2^63-1 / 2^63 "
                "/ 2^64-1 lengths, depth 3; seq: opcode x FIN, depth 4; sizes: 7/16/64-bit forms with real payloads; header: the full product "
                "opcode x FIN x RSV (all 8 combinations) x mask x length class as first frame, with and without permessage-deflate negotiated; pmd: compressed "
                "and uncompressed messages, fragments, control frames and every misuse of RSV1/RSV2/RSV3 with and without the extension, depth 2 / 3; bufsize: the configured read buffer size {default, 1, 2, 13, 14, 15, 64, 124, "
                "125, 126, 1024} x control frames of every legal payload size around it x data frames around it, depth 2; thorough: depth 3, and a larger alphabet at depth 2) for both roles, each with the reference receiver's outcome after every "
                "step; every behaviour is rendered to bytes from the specification's layout, fed to a real websocket.Conn, ended after the last "
                "frame and at offsets inside the last frame (prefixes are behaviours too, so this is every frame of every behaviour), under 2-4 "
                "API/segmentation/buffer variants (the read buffer size is swept over the same 11 sizes in every family: no action of the "
                "specification reads it; BufferBlind is model checked on two receivers in lockstep); plus random long behaviours of a mostly conformant peer (TLC simulation, depth 30); "
                "distinct = distinct behaviour")
    ctx.exhaustive = (t == "quick")   # thorough adds thousands of random long behaviours (TLC simulation)
    ctx.assumptions += [
        "permessage-deflate negotiated or not is a dimension of the header (single frame, full RSV product), pmd and sim families; the other "
        "families run without it. A compressed message is a DEFLATE stream of stored blocks made by the replayer (1 or >= 6 octets on the wire); "
        "what a receiver does with octets that are not a DEFLATE stream is inflation, not framing, and is not judged; the read limit counts octets on the wire",
        "frames use the minimal length form (RFC 6455 5.2 obliges the sender; what a receiver does with other forms is not judged)",
        "text payloads are not checked for UTF-8; close bodies of one byte and close code 1014 are not generated",
        "where a frame breaks a rule and also exceeds the limit, or has the top bit of a 64-bit length set, any of the applicable outcomes is accepted; "
        "for a top-bit length only 'reading fails, nothing delivered' is demanded",
        "error texts, the reason of the Close 1002, the status of the Close sent with the limit error, EOF vs UnexpectedEOF at a cut are free",
        "a stream cut inside a frame may be reported as the i/o error or as the failure that frame causes anyway",
        "payload bytes are a position-dependent pattern, not all byte strings; depth and alphabets are bounded as listed",
        "read buffer sizes: the 11 listed, passed to the constructor the Dialer and the Upgrader use (hook VerifNewConn); the server role is also "
        "made by the real Upgrader from a hijacked connection whose bufio.Reader has 16/64/255/256/300/4096 bytes; write buffer sizes are not varied here (C13)",
    ]
    def tlc(*a, **k):   # shared machine: every TLC run with a heap cap
        k.setdefault("jopts", ["-Xmx3g"])
        return ctx.tlc(*a, **k)
    ctx.sany("ws", "WsReader")
    ctx.sany("ws", "Gen_WsReader")
    # the property on the specification itself
    tlc("ws", "MC_WsReader", "MC_WsReader.cfg", coverage=(t == "thorough"))
    tlc("ws", "MC_WsReader", "MC_WsReader_deep.cfg" if t == "quick" else "MC_WsReader_deep.thorough.cfg")
    # non-vacuity: the named deviations violate the invariants
    tlc("ws", "MC_WsReader", "MC_WsReader_topbit.cfg", expect_violation="NoTopBitFrame", count_states=False)
    tlc("ws", "MC_WsReader", "MC_WsReader_perframe.cfg", expect_violation="LimitOk", count_states=False)
    if t == "thorough":
        tlc("ws", "MC_WsReader", "MC_WsReader_pongempty.cfg", expect_violation="PongOk", count_states=False)
        tlc("ws", "MC_WsReader", "MC_WsReader_ctlbuf.cfg", expect_violation="NoSpontaneousFailure", count_states=False)
    # configuration that matters: permessage-deflate negotiated or not (RSV1 has a meaning on the first frame of a data
    # message, nowhere else; RSV2/RSV3 never); deviations: RSV1 shadows RSV2/RSV3, RSV1 ignored on control/continuation frames
    tlc("ws", "MC_WsReader", "MC_WsReader_pmd.cfg")
    if t == "thorough":
        tlc("ws", "MC_WsReader", "MC_WsReader_rsvshadow.cfg", expect_violation="ReservedBitsOk", count_states=False)
        tlc("ws", "MC_WsReader", "MC_WsReader_rsvanywhere.cfg", expect_violation="ReservedBitsOk", count_states=False)
    # configuration independence: two receivers in lockstep that differ in the read buffer size only agree on everything
    # observable; with the deviation control-needs-buffer they do not
    tlc("ws", "MC_WsReaderBuf", "MC_WsReaderBuf.cfg" if t == "quick" else "MC_WsReaderBuf.thorough.cfg")
    tlc("ws", "MC_WsReaderBuf", "MC_WsReaderBuf_ctlbuf.cfg", expect_violation="BufferBlind", count_states=False)
    cases = os.path.join(ctx.out, "cases.ndjson")
    for f in (QUICK if t == "quick" else THOROUGH):
        tlc("ws", "Gen_WsReader", "Gen_WsReader_%s.%s.cfg" % (f, t), cases_to=cases, timeout=1500, count_states=False)
    # random long behaviours of a mostly conformant peer (one behaviour per trace, emitted when the stream ends)
    tlc("ws", "Gen_WsReader", "Gen_WsReader_sim.cfg", cases_to=cases, simulate=(120 if t == "quick" else 4000), depth=40,
            workers=1, timeout=900)
    res = ctx.replay("reader", cases, timeout=3000)
    fails = ctx.judge("reader", cases, res)
    ctx.notes["connections_driven"] = sum(int(r.get("info") or 0) for r in res)
    # binding self-test: behaviours generated from a specification with two rules flipped (top-bit lengths accepted as empty
    # frames, pongs without payload) must be rejected by the replay of the real library; otherwise nothing binds spec and code
    st = os.path.join(ctx.out, "selftest.ndjson")
    tlc("ws", "Gen_WsReader", "Gen_WsReader_selftest.cfg", cases_to=st, count_states=False)
    sres = ctx.replay("reader", st)
    rejected = sum(1 for r in sres if not r["ok"])
    ctx.notes["selftest"] = {"cases": len(sres), "rejected": rejected}
    if rejected == 0 and not fails:
        raise vlib.Broken("binding self-test: %d behaviours of a specification with two wrong rules were all accepted by the replay" % len(sres))
