"""C15: concurrent control frames never corrupt the WebSocket frame stream (spec/wsconc/WsConc.tla).

MC      TLC explores every interleaving of the data writer (whose application may pause with the
        message open), the control senders, the reader (whose handlers answer the peer's Ping and
        Close frames) and the closer in the model and checks MsgIntact / WholeFrames / AfterClose /
        InOrder / ResultsHonest; six named deviations must each violate an invariant (non-vacuity).
GEN     Gen_WsConc projects behaviours on the steps a harness can force (begin a call, let a frame
        of the peer reach the reader, let a transport operation happen, let D's application go on)
        and emits them as schedules; with a deviation switched on it emits ATTACK schedules that
        try to force a transport write the contract forbids.
REPLAY  harness/cmd/c15 (built with -race) forces each schedule on a real websocket.Conn over a
        gated net.Conn and records what actually happened.
TRACE   Trace_WsConc accepts or rejects every recorded execution (code -> model); a rejected
        execution that is rejected again when the schedule is re-run is a VIOLATION.
"""
import json
import os
import random
import re
import threading
from concurrent.futures import ThreadPoolExecutor

from lib import vlib

RACE = {"wsconc": True}

SUB = "wsconc"

# family -> (quick sample size, thorough sample size); None = all
FAMILIES = {
    "main":        (400, None),
    "client":      (110, 1500),
    "twoclose":    (60, None),
    "nocloser":    (40, None),
    "atk_nolock":  (30, 300),
    "atk_split":   (12, None),
    "atk_nocheck": (12, None),
    "atk_nolatch": (12, None),
    # control writes with a short deadline: they give up waiting for the lock held by D
    "timeout":        (60, None),
    "timeout2s":      (60, 1500),
    "atk_timeout":    (25, None),
    "atk_timeout2s":  (25, 300),
    # the reader: the peer's Ping / Close reach their handlers (default; application's WriteControl) while D
    # has its message open (application paused: bytes buffered, between two frames; inside a flush)
    "rdflt":            (90, 1000),
    "rcust":            (50, None),
    "rclient":          (70, 800),
    "rwm":              (40, None),
    "atk_rdata":        (20, None),
    "atk_rnolock":      (16, None),     # a handler that writes its answer without the write lock
    # a transport write fails although the transport stays open (write deadline inside net.Conn.Write / other error)
    # after a proper prefix of the bytes was accepted: inside a control frame, a data frame's header+buffer, between
    # / inside the two writes of a data frame, inside the answer of a handler on the reading goroutine
    "flt_ctl":          (40, None),
    "flt_hdr":          (32, None),
    "flt_extra":        (40, 800),
    "flt_extra_t":      (6, None),
    # the data writer sends the Close itself through the message API (WriteMessage / NextWriter / prepared) and
    # goes on calling every entry point (WritePreparedMessage too): each call fails with close-sent, no panic
    "dc_wm":            (14, None),
    "dc_nw":            (60, None),
    "dc_pm":            (12, None),
    "kc_pm":            (25, None),     # the Close of another goroutine, D goes on with prepared messages
    "atk_dnolatch":     (12, None),
    "atk_flt":          (25, None),     # ... and is not made sticky: somebody writes behind the truncated frame
}
THOROUGH_ONLY = {
    "free":           1500,     # every lock hand-off order, not only first-come-first-served
    "twocalls":       None,
    "atk_nolock_big": 300,
    "timeout2":       1000,
    "atk_timeout2":   300,
    "rcustbig":       800,
    "atk_rdata_client": None,
    "flt_ctl_e":      None,
    "flt_rd":         None,
    "flt_two":        None,
    "atk_flt_hdr":    None,
}
SIMULATED = {"sim": (4000, 120), "simclient": (1500, 100), "simreader": (1500, 140), "simrclient": (800, 120)}   # cfg -> (behaviours, depth)


def _sample(cases, n, rnd):
    """all decisive schedules plus a seeded sample of the others, in generation order"""
    if n is None or len(cases) <= n:
        return list(cases)
    dec = [i for i, c in enumerate(cases) if '"decisive":true' in c]
    if len(dec) > n // 2:
        dec = sorted(rnd.sample(dec, n // 2))
    rest = [i for i in range(len(cases)) if i not in set(dec)]
    keep = set(dec) | set(rnd.sample(rest, n - len(dec)))
    return [c for i, c in enumerate(cases) if i in keep]


def _validate(ctx, trace_path, name, chunks=1):
    """TLC on the recorded schedules: list of (consumed, total) per trace line."""
    lines = [l for l in open(trace_path) if l.strip()]
    if not lines:
        raise vlib.Broken("no recorded schedules in %s" % trace_path)
    chunks = max(1, min(chunks, len(lines) // 50 or 1))
    parts = [lines[k::chunks] for k in range(chunks)]

    def one(k):
        p = os.path.join(ctx.out, "%s_%d.ndjson" % (name, k))
        with open(p, "w") as f:
            f.writelines(parts[k])
        info = ctx.tlc(SUB, "Trace_WsConc", "Trace_WsConc.cfg", name="%s_%d" % (name, k), files={"trace.ndjson": p},
                       workers=1, timeout=1500, jopts=["-Xmx3g"])
        m = re.search(r'<<\s*"TRACE",\s*"(\[[\[\]\d,\s]*\])"\s*>>', open(info["log"]).read(), re.S)
        if not m:
            raise vlib.Broken("Trace_WsConc did not report its POSTCONDITION (log %s)" % info["log"])
        hw = json.loads(m.group(1))
        if len(hw) != len(parts[k]):
            raise vlib.Broken("Trace_WsConc reported %d schedules for %d trace lines" % (len(hw), len(parts[k])))
        return hw

    if chunks == 1:
        res = [one(0)]
    else:
        with ThreadPoolExecutor(chunks) as ex:
            res = list(ex.map(one, range(chunks)))
    out = [None] * len(lines)
    for k in range(chunks):
        for j, v in enumerate(res[k]):
            out[k + j * chunks] = tuple(v)
    return out, [json.loads(l) for l in lines]


def _selftest(ctx, recs):
    """Binding self-test: corrupt real recorded executions and require TLC to reject them.
       (1) a control write is moved between a header write and its `extra` (torn frame);
       (2) a successful control write is moved behind the Close frame (write after close);
       (3) the answer a handler wrote on the reading goroutine while D's application had paused with its
           message open is turned into the final frame of that message (the message writer closed behind D's back)."""
    def twrites(r):
        return [k for k, e in enumerate(r["ev"]) if e["ev"] == "twrite"]

    torn = after = stolen = None
    for r in recs:
        if stolen is None:
            ev = r["ev"]
            for k, e in enumerate(ev):
                if e["ev"] == "twrite" and e["proc"] == "R" and e["ok"] and e["cls"] == "pong":
                    nxt = [x for x in ev[k + 1:] if x.get("proc") == "D" and x["ev"] in ("twrite", "resume", "ret", "begin")]
                    if nxt and nxt[0]["ev"] == "resume":      # D's application had paused with its message open
                        m = json.loads(json.dumps(r))
                        m["ev"][k]["cls"], m["ev"][k]["part"] = "cont+fin", "hdr"
                        stolen = (m, r)
                        break
        tw = twrites(r)
        ev = r["ev"]
        for a, b in zip(tw, tw[1:]):
            if torn is None and ev[a]["part"] == "hdr" and ev[b]["part"] == "extra" and ev[a]["ok"] and ev[b]["ok"]:
                # a control sender that had begun before the header write and wrote after the extra
                ks = [k for k in tw if k > b and ev[k]["part"] == "ctl" and ev[k]["ok"] and
                      any(e["ev"] == "begin" and e["proc"] == ev[k]["proc"] and e["call"] == ev[k]["call"] for e in ev[:a])]
                if ks:
                    k = ks[0]
                    m = json.loads(json.dumps(r))
                    e = m["ev"].pop(k)
                    pos = b if k > b else b - 1
                    m["ev"].insert(pos, e)
                    torn = (m, r)
        if after is None:
            cl = [k for k in tw if ev[k]["cls"] == "close" and ev[k]["ok"]]
            pk = [k for k in tw if ev[k]["cls"] in ("ping", "pong") and ev[k]["ok"]]
            if cl and pk and pk[0] < cl[0] and not any(
                    e["ev"] == "ret" and e["proc"] == ev[pk[0]]["proc"] and e["call"] == ev[pk[0]]["call"] for e in ev[:cl[0] + 1]):
                m = json.loads(json.dumps(r))
                e = m["ev"].pop(pk[0])
                m["ev"].insert(cl[0], e)      # the close moved one down: this is right behind it
                after = (m, r)
        if torn and after and stolen:
            break
    if not torn or not after or not stolen:
        raise vlib.Broken("binding self-test: no recorded execution with a header+extra pair and a control write / "
                          "a ping before a close / an answer of the reader while D's application paused "
                          "(the replay did not exercise the property)")
    p = os.path.join(ctx.out, "selftest.ndjson")
    with open(p, "w") as f:
        for r in (torn[0], torn[1], after[0], after[1], stolen[0], stolen[1]):
            f.write(json.dumps(r) + "\n")
    hw, _ = _validate(ctx, p, "selftest")
    ok = hw[0][0] < hw[0][1] and hw[1][0] == hw[1][1] and hw[2][0] < hw[2][1] and hw[3][0] == hw[3][1] and \
        hw[4][0] < hw[4][1] and hw[5][0] == hw[5][1]
    if not ok:
        raise vlib.Broken("binding self-test failed: corrupted traces must be rejected and their originals accepted, got %r" % (hw,))
    ctx.notes["binding_selftest"] = {
        "torn_frame_trace_rejected_at_event": hw[0][0] + 1, "write_after_close_trace_rejected_at_event": hw[2][0] + 1,
        "data_frame_written_by_the_reader_trace_rejected_at_event": hw[4][0] + 1,
        "originals_accepted": True}


def run(ctx):
    t = ctx.tier
    quick = t == "quick"
    ctx.rule = ("MC: every interleaving of 1 data writer (3 frames, one with `extra`) x ping sender x close sender x closer and of "
                "more programs (among them: the reader answering the peer's Ping and Close by a default and an application handler "
                "while the writer's application pauses with its message open); GEN: every schedule (sequence of call begins and transport operations) the model allows for the cfg "
                "programs under eager internal steps (call begins, frames of the peer reaching the reader, transport operations, the "
                "writer's application going on), plus attack schedules from the seven deviation models, sampled by seed in the quick "
                "tier with all decisive schedules kept; each is forced on a real Conn over a gated transport under -race and the recorded "
                "execution is accepted by Trace_WsConc; distinct = distinct schedule JSON")
    ctx.exhaustive = not quick
    ctx.assumptions += [
        "control write deadlines are of two classes: far away (the call waits for the lock for ever) and short (2 ms: the call may "
        "give up with the write timeout error; time itself is not modelled, giving up is possible whenever such a call waits); "
        "a call that began after the Close frame and gave up on its short deadline counts as failed although its error is not close-sent",
        "one data writer (the package forbids more), compression off, write buffer 256 bytes, server and client role; the message "
        "API is WriteMessage, NextWriter+Write+Close and WritePreparedMessage, each also with a Close frame as the message",
        "the reader writes only from the handlers of Ping and Close frames of the peer (default handlers of the package, whose "
        "deadline is the package's one second: they may give up and do not show their result, and handlers of the application "
        "that call WriteControl without deadline); the peer's frames are well-formed; the application pauses only between two "
        "calls on its open message (after NextWriter, after a Write)",
        "the transport's Write is atomic (one call = one contiguous byte range) and fails once Conn.Close closed it",
        "transport faults other than that: chosen single writes (control frame, data header+buffer, data `extra`, handler answer) fail "
        "with the transport still open after it accepted a proper prefix (half of the bytes; nothing only for a later part of a frame), "
        "with a timeout net.Error or a plain error; required is only what the wire shows - the frame left incomplete is the end of the "
        "stream and the failed call and all later ones return an error (which one is not judged; a failure before the first byte of a "
        "frame is not driven)",
        "how many transport writes a frame takes is the library's choice (data frame: header+buffer and the caller's slice; control "
        "frame: 1..k adjacent writes, the first holding the frame header): read from the recorded execution, the generator predicts one "
        "write per control frame and the scheduler lets the further parts follow at once; a transport close between the parts of any "
        "frame leaves a truncated last frame, which is allowed for data and control frames alike",
        "lock hand-off among several waiters is the Go runtime's choice: TLC covers all orders in the model, the replay the ones "
        "the runtime produces (the generator predicts first-come-first-served; a wrong prediction only loses coverage)",
        "bounded waits (30 ms) decide only that a process did not arrive at its gate; the verdict comes from the recorded execution",
    ]

    # the -race build of the replayer runs while TLC works
    build_err = []

    def build():
        try:
            ctx.go_build(race=True)
        except Exception as e:  # noqa: BLE001
            build_err.append(e)
    bt = threading.Thread(target=build)
    bt.start()

    for m in ("WsConc", "MC_WsConc", "Gen_WsConc", "Trace_WsConc"):
        ctx.sany(SUB, m)

    mc = [("MC_WsConc.cfg", None), ("MC_WsConc_twocalls.cfg", None),
          ("MC_WsConc_nolock.cfg", "WholeFrames"), ("MC_WsConc_nocheck.cfg", "AfterClose"),
          ("MC_WsConc_split.cfg", "WholeFrames"), ("MC_WsConc_nolatch.cfg", "AfterClose"),
          ("MC_WsConc_timeout.cfg", None), ("MC_WsConc_timeoutrel.cfg", "WholeFrames"),
          ("MC_WsConc_timeoutrel_lock.cfg", "LockOK"),
          ("MC_WsConc_reader.cfg", None), ("MC_WsConc_rdata.cfg", "MsgIntact"),
          # control frames that reach the transport in two adjacent writes; a foreign write between them
          ("MC_WsConc_ctl2.cfg", None), ("MC_WsConc_ctl2_nolock.cfg", "WholeFrames"),
          # transport writes that fail with the transport open; the failure not made sticky
          # the Close frame sent by the data writer through the message API; ... not latched
          ("MC_WsConc_dclose.cfg", None), ("MC_WsConc_dclose_nolatch.cfg", "AfterClose"),
          ("MC_WsConc_fault.cfg", None), ("MC_WsConc_fault2.cfg", None), ("MC_WsConc_fault_nolatch.cfg", "CutIsLast")]
    if not quick:
        mc += [("MC_WsConc_twoclose.cfg", None), ("MC_WsConc_big.cfg", None), ("MC_WsConc_timeoutbig.cfg", None),
               ("MC_WsConc_readerbig.cfg", None), ("MC_WsConc_reader2.cfg", None), ("MC_WsConc_ctl2big.cfg", None), ("MC_WsConc_faultbig.cfg", None)]
    fams = dict((f, n[0] if quick else n[1]) for f, n in FAMILIES.items())
    if not quick:
        fams.update(THOROUGH_ONLY)

    def run_mc(job):
        cfg, viol = job
        if viol:
            return ctx.tlc(SUB, "MC_WsConc", cfg, expect_violation=viol, count_states=False, workers=2, jopts=["-Xmx1g"])
        return ctx.tlc(SUB, "MC_WsConc", cfg, workers=4, coverage=not quick, timeout=1500, jopts=["-Xmx3g"])

    def run_gen(f):
        p = os.path.join(ctx.out, "gen_%s.ndjson" % f)
        ctx.tlc(SUB, "Gen_WsConc", "Gen_WsConc_%s.cfg" % f, cases_to=p, count_states=False, workers=2, timeout=1500, jopts=["-Xmx2g"])
        return f, p

    with ThreadPoolExecutor(10) as ex:
        mcf = [ex.submit(run_mc, j) for j in mc]
        genf = [ex.submit(run_gen, f) for f in fams]
        for f in mcf:
            f.result()
        gen = dict(f.result() for f in genf)
    if not quick:
        for f, (num, depth) in SIMULATED.items():
            p = os.path.join(ctx.out, "gen_%s.ndjson" % f)
            ctx.tlc(SUB, "Gen_WsConc", "Gen_WsConc_%s.cfg" % f, cases_to=p, simulate=num, depth=depth, workers=1, timeout=1500, jopts=["-Xmx1g"])
            gen[f] = p
            fams[f] = None

    rnd = random.Random(ctx.seed)
    cases = os.path.join(ctx.out, "cases.ndjson")
    per_family = {}
    with open(cases, "w") as out:
        for f in list(FAMILIES) + [x for x in fams if x not in FAMILIES]:
            if f not in gen:
                continue
            allc = list(dict.fromkeys(ctx.load_cases(gen[f])))      # simulation repeats behaviours
            if not allc:
                raise vlib.Broken("Gen_WsConc_%s emitted no schedule" % f)
            pick = _sample(allc, fams[f], rnd)
            per_family[f] = {"generated": len(allc), "replayed": len(pick),
                             "decisive": sum(1 for c in pick if '"decisive":true' in c)}
            for c in pick:
                out.write(c + "\n")
    if not any(v["decisive"] for v in per_family.values()):
        raise vlib.Broken("no decisive schedule (D held between header and extra while every other process begins) was generated")

    bt.join()
    if build_err:
        raise build_err[0]
    trdir = os.path.join(ctx.out, "traces")
    res = ctx.replay("wsconc", cases, race=True, dir=trdir, timeout=3000)
    case_lines = ctx.load_cases(cases)
    if len(res) != len(case_lines):
        raise vlib.Broken("replayer returned %d results for %d schedules" % (len(res), len(case_lines)))

    # ---- TLC decides on every recorded execution
    hw, recs = _validate(ctx, os.path.join(trdir, "trace.ndjson"), "trace", chunks=2 if quick else 6)
    if len(hw) != len(res):
        raise vlib.Broken("%d recorded schedules for %d results" % (len(hw), len(res)))
    rejected = [k for k, (a, b) in enumerate(hw) if a != b]
    clean_run = not rejected and all(r["ok"] for r in res)
    if clean_run:
        # the binding self-test needs accepted executions of a library that keeps the property; on a run with
        # failures the verdict comes from those, and a missing sample execution must not mask them as "broken"
        _selftest(ctx, [r for k, r in enumerate(recs) if hw[k][0] == hw[k][1] and res[k]["ok"]])
    else:
        ctx.notes["binding_selftest"] = "skipped: the run has failing or rejected schedules"

    # ---- failures: seen by the replayer itself, by the specification, or both
    tlc_only = 0
    failing = {}
    for k, r in enumerate(res):
        if not r["ok"]:
            failing[k] = r.get("what") or ""
    for k in rejected:
        why = ("Trace_WsConc rejects the recorded execution at event %d of %d: %s (no behaviour of the specification that satisfies "
               "MsgIntact/WholeFrames/AfterClose/InOrder produces it)" % (hw[k][0] + 1, hw[k][1], json.dumps(recs[k]["ev"][hw[k][0]])))
        if k in failing:
            failing[k] += " | " + why
        else:
            failing[k] = why
            tlc_only += 1
            res[k]["deviation"] = "C15/trace-rejected"
            res[k]["observed"] = recs[k]["ev"]
    unreproduced = 0
    if failing:
        # every failing schedule is forced once more (twice if need be) and has to fail again:
        # a schedule is a real-time affair, a verdict needs the failure twice
        idx = sorted(failing)
        if len(idx) > 150:
            idx = idx[::len(idx) // 150 + 1]
        again = set()
        for attempt in range(2):
            todo = [k for k in idx if k not in again]
            if not todo:
                break
            # second round: a failure that needs the runtime's cooperation gets 15 chances per schedule
            todo = [k for k in todo for _ in range(1 if attempt == 0 else 15)][:900]
            batch = os.path.join(ctx.out, "repro_%d.ndjson" % attempt)
            with open(batch, "w") as f:
                for k in todo:
                    f.write(case_lines[k] + "\n")
            d = os.path.join(ctx.out, "traces_repro_%d" % attempt)
            r2 = ctx.replay("wsconc", batch, race=True, dir=d, timeout=3000)
            h2, _ = _validate(ctx, os.path.join(d, "trace.ndjson"), "trace_repro_%d" % attempt)
            for j, k in enumerate(todo):
                if not r2[j]["ok"] or h2[j][0] != h2[j][1]:
                    again.add(k)
        if not again:
            k = idx[0]
            raise vlib.Broken("%d schedule(s) failed but none failed again when forced 16 more times; first: schedule %d %s: %s"
                              % (len(failing), k, case_lines[k][:300], failing[k][:600]))
        for k in failing:
            if k in again or k not in idx:
                res[k]["ok"] = False
                res[k]["what"] = failing[k]
            else:
                unreproduced += 1
                res[k]["ok"] = True
                res[k].setdefault("info", {})["failed_once_not_again"] = failing[k][:400]
    ctx.judge("wsconc", cases, res, race=True, reproduce=False)

    infos = [r.get("info") or {} for r in res]
    ctx.notes["schedules"] = per_family
    ctx.notes["replay"] = {
        "schedules": len(res),
        "events_recorded": sum(i.get("events", 0) for i in infos),
        "transport_writes_recorded": sum(i.get("twrites", 0) for i in infos),
        "forced_exactly_as_scheduled": sum(1 for i in infos if i.get("exact")),
        "with_header_and_extra_on_the_wire": sum(1 for i in infos if i.get("extra")),
        "bounded_waits_expired": sum(i.get("timeouts", 0) for i in infos),
        "items_skipped": sum(i.get("skipped", 0) for i in infos),
        "attack_schedules": sum(1 for c in case_lines if '"attack":true' in c),
        "decisive_schedules": sum(1 for c in case_lines if '"decisive":true' in c),
        "race_reports": sum(i.get("race_reports", 0) for i in infos),
        "frames_of_the_peer_handled_by_the_reader": sum(i.get("rd_calls", 0) for i in infos),
        "of_them_with_D_paused_with_its_message_open": sum(i.get("rd_open_app", 0) for i in infos),
        "of_them_with_D_inside_a_flush": sum(i.get("rd_open_write", 0) for i in infos),
        "transport_writes_failed_with_the_transport_open": sum(i.get("faults", 0) for i in infos),
    }
    ctx.notes["trace_validation"] = {"schedules_accepted": len(hw) - len(rejected), "schedules_rejected": len(rejected),
                                     "rejected_only_by_the_specification": tlc_only,
                                     "failed_once_but_not_when_forced_again": unreproduced}
    if ctx.notes["replay"]["with_header_and_extra_on_the_wire"] == 0:
        raise vlib.Broken("no recorded execution wrote a frame in two transport writes: the replay did not exercise the property")
    if clean_run and (ctx.notes["replay"]["of_them_with_D_paused_with_its_message_open"] == 0
                      or ctx.notes["replay"]["of_them_with_D_inside_a_flush"] == 0):
        raise vlib.Broken("no frame of the peer reached the reader while the data writer had its message open "
                          "(application paused / inside a flush): the replay did not exercise the reader's handlers")
    if clean_run and ctx.notes["replay"]["transport_writes_failed_with_the_transport_open"] == 0:
        raise vlib.Broken("no transport write was made to fail with the transport open: the replay did not exercise the sticky write error")
