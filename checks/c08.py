"""C08: I/O failures keep their root cause (spec/errio/ErrChain.tla, FramedIo.tla)."""
import json
import os


J = ["-Xmx2g"]


def run(ctx):
    t = ctx.tier
    ctx.level = "model_checking"
    ctx.rule = ("errchain: TLC enumerates every nesting of the errors package's constructors (WithStack, WithMessage, Wrap, Wrapf) to depth 4 (6 thorough) "
                "over nil / foreign / New / Errorf roots, and (errdeep) every nesting of 1-2 (3 thorough) RUNS of one constructor repeated 1 / 33 / (100) / 1000 "
                "times (total depth up to 1100, 2100 thorough); framed: TLC enumerates RTMP sessions, FLV files (1-3 items over boundary shapes) and the handshake; for "
                "each the replayer enumerates EVERY cut offset 0..len (all boundaries +-3, header bytes and a stride for streams above 4 kB; thorough: above 20 kB, "
                "with a seeded 1/24 of the streams up to 150 kB at every offset) under whole and 1-byte "
                "segmentation, a transport that fails ONCE at every read call index (whole, random, item-aligned and 1-byte segmentation) and at every write "
                "call index; FramedIo's Complete(n) and ErrorSurfaces (the library call during which the transport failed reports it) are the oracle")
    ctx.exhaustive = True
    ctx.assumptions += ["EOF vs UnexpectedEOF at a given offset is the library's choice (either accepted)",
                        "item end offsets are taken from the library's own clean write (the specification's predicted sizes are compared as information only)"]
    ctx.sany("errio", "ErrChain")
    ctx.sany("errio", "FramedIo")
    ctx.tlc("errio", "MC_ErrChain", "MC_ErrChain.cfg", jopts=J)
    ctx.tlc("errio", "MC_ErrChain", "MC_ErrChain_deviation.cfg", expect_violation="CauseIsRoot", count_states=False, jopts=J)
    ctx.tlc("errio", "MC_FramedIo", "MC_FramedIo.cfg", coverage=(t == "thorough"), jopts=J)
    ctx.tlc("errio", "MC_FramedIo", "MC_FramedIo_deviation.cfg", expect_violation="ReturnedOk", count_states=False, jopts=J)
    ctx.tlc("errio", "MC_FramedIo", "MC_FramedIo_swallow.cfg", expect_violation="ErrorSurfaces", count_states=False, jopts=J)
    ec = os.path.join(ctx.out, "errchain.ndjson")
    ctx.tlc("errio", "MC_ErrChain", "Gen_ErrChain.%s.cfg" % t, cases_to=ec, count_states=False, jopts=J)
    res = ctx.replay("errchain", ec)
    ctx.judge("errchain", ec, res)
    # deep chains: runs of one constructor repeated up to 1000 times (the same replayer, second stage name for the evidence)
    ed = os.path.join(ctx.out, "errdeep.ndjson")
    ctx.tlc("errio", "MC_ErrChain", "Gen_ErrChainDeep.%s.cfg" % t, cases_to=ed, count_states=False, jopts=J)
    res = ctx.replay("errdeep", ed, again=400)
    ctx.judge("errdeep", ed, res)
    fc = os.path.join(ctx.out, "framed.ndjson")
    ctx.tlc("errio", "Gen_FramedIo", "Gen_FramedIo.%s.cfg" % t, cases_to=fc, jopts=J)
    # thorough: a seeded 1/24 of the streams above 20 kB are replayed at EVERY cut offset (20 s for 66 kB, 80 s for 130 kB, the
    # library re-reads the prefix for every offset), the others at boundaries, header bytes, buffer multiples and stride 61;
    # every stream at every offset took more than 100 minutes on the shared machine. The second pass takes a small sample.
    res = ctx.replay("framed", fc, timeout=6000, again=(4000 if t == "quick" else 20))
    ctx.judge("framed", fc, res)
    def info(r):
        return r.get("info") if isinstance(r.get("info"), dict) else {}
    cuts = sum(info(r).get("cuts", 0) for r in res)
    faults = sum(info(r).get("faults", 0) for r in res)
    mism = sum(1 for r in res if info(r).get("spec_offsets_match") is False)
    ctx.notes.update({"cut_positions_replayed": cuts, "fault_positions_replayed": faults,
                      "streams_whose_layout_differs_from_spec_prediction_info_only": mism})
    ctx.evaluations += cuts + faults
