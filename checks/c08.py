"""C08: I/O failures keep their root cause (spec/errio/ErrChain.tla, FramedIo.tla)."""
import json
import os


def run(ctx):
    t = ctx.tier
    ctx.level = "model_checking"
    ctx.rule = ("errchain: TLC enumerates every nesting of the errors package's constructors (WithStack, WithMessage, Wrap, Wrapf) to depth 4 (6 thorough) "
                "over nil / foreign / New / Errorf roots; framed: TLC enumerates RTMP sessions, FLV files (1-3 items over boundary shapes) and the handshake; for "
                "each the replayer enumerates EVERY cut offset 0..len (all boundaries +-3, header bytes and a stride for streams above 4 kB) under whole and 1-byte "
                "segmentation, an injected error at every read call index and at every write call index; FramedIo's Complete(n) is the oracle")
    ctx.exhaustive = True
    ctx.assumptions += ["EOF vs UnexpectedEOF at a given offset is the library's choice (either accepted)",
                        "item end offsets are taken from the library's own clean write (the specification's predicted sizes are compared as information only)"]
    ctx.sany("errio", "ErrChain")
    ctx.sany("errio", "FramedIo")
    ctx.tlc("errio", "MC_ErrChain", "MC_ErrChain.cfg")
    ctx.tlc("errio", "MC_FramedIo", "MC_FramedIo.cfg", coverage=(t == "thorough"))
    ctx.tlc("errio", "MC_FramedIo", "MC_FramedIo_deviation.cfg", expect_violation="ReturnedOk", count_states=False)
    ec = os.path.join(ctx.out, "errchain.ndjson")
    ctx.tlc("errio", "MC_ErrChain", "Gen_ErrChain.%s.cfg" % t, cases_to=ec, count_states=False)
    res = ctx.replay("errchain", ec)
    ctx.judge("errchain", ec, res)
    fc = os.path.join(ctx.out, "framed.ndjson")
    ctx.tlc("errio", "Gen_FramedIo", "Gen_FramedIo.%s.cfg" % t, cases_to=fc)
    # a thorough framed case replays a 150 kB stream at every cut offset: the second pass takes a sample only
    # a thorough framed case replays a 150 kB stream at every cut offset (the stage takes about 50 minutes, allocation
    # bound: parallel shards were slower in total): the second pass takes a small sample only
    res = ctx.replay("framed", fc, timeout=6000, again=(4000 if t == "quick" else 20))
    ctx.judge("framed", fc, res)
    def info(r):
        return r.get("info") if isinstance(r.get("info"), dict) else {}
    cuts = sum(info(r).get("cuts", 0) for r in res)
    faults = sum(info(r).get("faults", 0) for r in res)
    mism = sum(1 for r in res if info(r).get("spec_offsets_match") is False)
    ctx.notes.update({"cut_positions_replayed": cuts, "fault_positions_replayed": faults,
                      "streams_whose_layout_differs_from_spec_prediction_info_only": mism})
    ctx.evaluations += cuts + faults
