"""C07: untrusted bytes never crash or stall a decoder (spec/untrusted/Untrusted.tla) - level exploration.

The specification supplies the grammars (valid encodings of every wire/file format as layout descriptors, symbolic
grammars for JOSE / OCSP DER / JSON+), the mutation operators (actions on the field list resp. symbolic tuples),
the totality oracle and the enum ranges / scaling families; TLC enumerates seeds x operators; the replayer feeds every
case - and seeded random byte-level mutants of it - to the real entry points under recover and a watchdog, and
measures the growth of the decoding time on the scaling families.  "All byte strings" is sampled, not exhausted.
"""
import glob
import json
import os

from lib import vlib

LEVEL = "exploration"


def _stats(ctx, d, name):
    """Merge the statistics files the replayer wrote for stage `name` (main run and isolated re-runs)."""
    out = []
    for f in sorted(glob.glob(os.path.join(d, "stats_%s_*.json" % name))):
        try:
            out.append(json.load(open(f)))
        except Exception as e:  # pragma: no cover
            raise vlib.Broken("unreadable statistics file %s: %s" % (f, e))
    return out


def run(ctx):
    ctx.rule = ("TLC enumerates the states 'call' of the state machine Pick seed -> Mutate -> Decode of Untrusted.tla: every seed "
                "(valid encoding) of every format x every mutation operator instance (truncate at every field boundary and +-1 byte, "
                "every numeric field := 0/1/max-1/max/value-1/value+1/sign boundary, duplicate/drop every field, splice at every "
                "pair of boundaries, nest containers 2^k deep, restate a full chunk header with boundary lengths / other type / stream "
                "id inside every message in progress; for JOSE/OCSP/JSON+ the symbolic tuples operator x position class x "
                "value class, named parts and header members, DER TLV nodes incl. every node of the first 64/120 replaced by a truncated or "
                "inconsistent version of itself under re-computed outer lengths; the Forge family: JWE objects of an independent "
                "writer that are correctly authenticated over hostile inner content - every enc x key management class x both "
                "serialisations x ciphertext/padding/iv/zip/wrong-size-CEK classes), purely random inputs of the lengths "
                "0,1,2,3,7,64,1000,65536 per format, all values of every enum type, and the scaling families at doubling sizes; "
                "a case is distinct if its JSON differs; 'evaluations' counts decoder / enum-method calls")
    ctx.exhaustive = False
    ctx.assumptions += [
        "exploration, not exhaustion: the input space 'all byte strings up to 64 KiB' is sampled by grammar-derived mutants, "
        "seeded random byte mutants of each of them and random strings; coverage-guided fuzzing is not used",
        "linear time is judged on the specification's scaling families only, at doubling sizes from 4 KiB to 256 KiB (1 MiB in the "
        "thorough tier): per-call time (min of 3/5 samples, collector off during a sample) on the thread CPU clock and the wall "
        "clock; alarm = growth > 3.2x per doubling over the LAST THREE doublings of a series (> 3.2^3 = 32.8x over an 8x size "
        "range, each doubling > 2^1.3) on both clocks, confirmed by a second measurement (a quadratic decoder shows 64x; two "
        "doublings anywhere are not enough: linear decoders that recurse once per nesting level show a genuine exponent of "
        "1.4-1.6 between 4 and 64 KiB, where the stack outgrows the caches)",
        "a stall is a decoder call that does not return within 20 s (inputs are at most 70 KB) or a stream decoder that returns "
        "more values than its finite input can hold",
        "JOSE objects are produced by the library's own Sign/Encrypt (plus two RFC 7516 JSON forms it cannot produce, written with "
        "crypto/aes) and, for the Forge family, by the harness' own JWE writer (stdlib AES-CBC/HMAC/GCM/RSA/ECDH, own RFC 3394 "
        "wrap and Concat KDF; bound to RFC 7516 by the library decrypting its honest objects), OCSP DER by the library's CreateRequest, its test vectors and an RFC 6960 writer in the harness",
        "AVC samples are decoded with lengthSizeMinusOne 0..3 (the two-bit field of the configuration record); "
        "flv.Demuxer.ReadTag gets the size ReadTagHeader returned",
        "unrecoverable runtime errors (stack exhaustion, out of memory) would end the replayer: exit 2, not a verdict",
    ]
    tier = ctx.tier
    ctx.sany("untrusted", "Untrusted")
    mc_cfg = "MC_Untrusted.cfg" if tier == "quick" else "MC_Untrusted.thorough.cfg"
    ctx.tlc("untrusted", "MC_Untrusted", mc_cfg, coverage=(tier == "thorough"), timeout=600)
    ctx.tlc("untrusted", "MC_Untrusted", "MC_Untrusted_panic.cfg", expect_violation="Total", count_states=False)

    statsdir = os.path.join(ctx.out, "stats")
    os.makedirs(statsdir, exist_ok=True)
    extra = {"statsdir": statsdir, "seedfile": os.path.join(ctx.out, "seeds.json")}

    # ---- mutation families: layout-descriptor formats and symbolic formats
    cases = os.path.join(ctx.out, "cases_mutate.ndjson")
    ctx.tlc("untrusted", "Gen_Untrusted", "Gen_Untrusted.mut.%s.cfg" % tier, cases_to=cases, timeout=1500)
    if tier == "thorough":
        # two operators in a row (the single-operator product above stays unfactored)
        ctx.tlc("untrusted", "Gen_Untrusted", "Gen_Untrusted.mut2.thorough.cfg", cases_to=cases, timeout=1500)
    res = ctx.replay("mutate", cases, extra=extra, timeout=3000)
    ctx.judge("mutate", cases, res, extra=extra)

    # ---- the value matrices: enum ranges and scaling families (one TLC run, split by kind)
    mcases = os.path.join(ctx.out, "cases_matrix.ndjson")
    ctx.tlc("untrusted", "Gen_Untrusted", "Gen_Untrusted.matrix.%s.cfg" % tier, cases_to=mcases)
    ecases = os.path.join(ctx.out, "cases_enum.ndjson")
    scases = os.path.join(ctx.out, "cases_scale.ndjson")
    with open(ecases, "w") as fe, open(scases, "w") as fs:
        for line in ctx.load_cases(mcases):
            (fs if '"pts":' in line else fe).write(line + "\n")
    res = ctx.replay("enum", ecases, extra=extra)
    ctx.judge("enum", ecases, res, extra=extra)

    # ---- linear time: sequential, nothing else running in the replayer
    res = ctx.replay("scale", scases, extra=extra, timeout=3000)
    ctx.judge("scale", scases, res, extra=extra, max_repro=2)

    # ---- evidence
    decoders, calls, inputs, skipped, seed_ok, seed_total, rejected = {}, 0, 0, 0, 0, 0, []
    for st in _stats(ctx, statsdir, "mutate"):
        calls += st.get("calls", 0)
        inputs += st.get("inputs", 0)
        skipped += st.get("skipped", 0)
        seed_ok += st.get("seed_ok", 0)
        seed_total += st.get("seed_total", 0)
        rejected += st.get("seed_rejected") or []
        for name, d in (st.get("decoders") or {}).items():
            acc = decoders.setdefault(name, {"calls": 0, "ok": 0, "error": 0, "failed": 0})
            acc["calls"] += d["Calls"]
            acc["ok"] += d["Ok"]
            acc["error"] += d["Err"]
            acc["failed"] += d["Fail"]
    enum_calls, enum_methods = 0, {}
    for st in _stats(ctx, statsdir, "enum"):
        enum_calls += st.get("calls", 0)
        for k, v in (st.get("methods") or {}).items():
            enum_methods[k] = enum_methods.get(k, 0) + v
    scale_calls, growth = 0, {}
    for st in _stats(ctx, statsdir, "scale")[:1]:
        scale_calls += st.get("calls", 0)
        for fam, series in (st.get("families") or {}).items():
            for dec, pts in series.items():
                exps = [round(min(p.get("exp_wall", 0), p.get("exp_cpu", 0)), 2) for p in pts if p.get("measurable")]
                growth["%s/%s" % (fam, dec)] = {
                    "sizes": [p["bytes"] for p in pts], "per_call_us": [round(p["wall_us"], 1) for p in pts],
                    "growth_exponents": exps, "last_three_doublings": round(sum(exps[-3:]), 2) if len(exps) >= 3 else None,
                    "alarm_above": 5.03}
    if not decoders:
        raise vlib.Broken("the mutate replayer reported no decoder calls")
    if not ctx.fail_results:
        # vacuity guards (a run that ended early on a stall has not seen every seed)
        if seed_ok * 2 < seed_total or seed_total == 0:
            raise vlib.Broken("only %d of %d unmutated seeds were accepted by the decoder the specification names (%s): "
                              "the mutation families would be vacuous" % (seed_ok, seed_total, rejected[:5]))
        silent = sorted(n for n, d in decoders.items() if d["ok"] == 0 and n != "rtmp.msg.t8")  # t8: a type DecodeMessage never decodes
        if silent:
            raise vlib.Broken("decoders that never accepted any input (the seeds do not reach them): %s" % silent)
    # judge() counted one evaluation per case; the evidence counts calls into the library
    ctx.evaluations += calls + enum_calls + scale_calls - len(ctx.load_cases(cases)) - len(ctx.load_cases(ecases)) - len(ctx.load_cases(scases))
    ctx.notes["decoder_calls"] = dict(sorted(decoders.items()))
    ctx.notes["inputs_fed"] = inputs
    ctx.notes["cases_not_applicable"] = skipped
    ctx.notes["seeds_accepted"] = "%d/%d" % (seed_ok, seed_total)
    if rejected:
        ctx.notes["seeds_rejected"] = rejected[:20]
    ctx.notes["enum_method_calls"] = dict(sorted(enum_methods.items()))
    ctx.notes["scaling_families"] = dict(sorted(growth.items()))
