"""C10: FLV audio/video tag bodies round-trip through the packagers (spec/flvtag/FlvTag.tla)."""
import os

from lib import vlib


def run(ctx):
    ctx.rule = ("TLC enumerates the frame families of Gen_FlvTag (all 256 audio first bytes x payload lengths; all 256 AAC "
                "trait bytes; all 256 Opus trait bytes x every defined Opus rate x audio levels for the flags the trait has; "
                "all 256 video first bytes; all 256 AVC/HEVC trait bytes x composition times; Opus bodies with any rate byte / "
                "rate bits set; both rate tables over 0..255) and emits each frame with the specification's tag body; a case "
                "is distinct if its JSON differs. Each case is replayed frame->bytes->frame and bytes->frame->bytes")
    ctx.exhaustive = True
    ctx.assumptions += [
        "payload bytes are a position-dependent seeded pattern of lengths {min, min+1, 300} (thorough: more, up to 65536), not all byte strings",
        "canonical frames only: fields the format does not carry are zero, SoundSize/SoundType in 0..1, SoundRate 0..3 (non-Opus), "
        "composition time 0..2^24-1, Raw at least the decoder's minimum (audio body >= 2 bytes, video body >= 5 bytes)",
        "verdicts are the property's clauses (round trips, whole first byte, rate tables); agreement of the remaining header bytes "
        "with the documented layout is recorded as info only",
        "dimensions are factored (every first byte x boundary side fields; every trait byte x few first bytes), not multiplied",
    ]
    ctx.sany("flvtag", "FlvTag")
    ctx.tlc("flvtag", "MC_FlvTag", "MC_FlvTag.cfg", coverage=(ctx.tier == "thorough"))
    ctx.tlc("flvtag", "MC_FlvTag", "MC_FlvTag_opusrate.cfg", expect_violation="FirstByte", count_states=False)
    cases = os.path.join(ctx.out, "cases.ndjson")
    ctx.tlc("flvtag", "Gen_FlvTag", "Gen_FlvTag.%s.cfg" % ctx.tier, cases_to=cases, timeout=800)
    res = ctx.replay("flvtag", cases)
    ctx.judge("flvtag", cases, res)
    layout = sum(1 for r in res if r.get("ok") and isinstance(r.get("info"), dict) and ("layout" in r["info"] or "decode" in r["info"]))
    rejected = sum(1 for r in res if r.get("ok") and isinstance(r.get("info"), dict) and "rejected" in r["info"])
    ctx.notes["layout_differs_info_only"] = layout
    ctx.notes["bodies_not_accepted"] = rejected
    if layout:
        vlib.log("note: %d cases round-trip but the bytes after the first one differ from the documented layout (info only, not a C10 clause)" % layout)
