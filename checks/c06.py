"""C06: the AMF0 wire format is the one of the AMF0 specification (spec/amf0/Amf0.tla, StrictKeyed = FALSE)."""
import os


XMX = ["-Xmx3g"]  # the machine is shared: every TLC run has a heap cap


def run(ctx):
    thorough = ctx.tier == "thorough"
    ctx.rule = ("MC: TLC checks on the specification that its encoder and byte-level decoder (written from amf0_spec_121207) agree for every "
                "builder behaviour and raw pair list within the bounds, and the marker table for all 256 marker bytes in every position a "
                "value can have. GEN: TLC enumerates the value families of Gen_Amf0.tla with the specification's strict-array layout, "
                "FFmpeg/Flash shaped onMetaData trees, and all 256 markers each with a plausible body at the top, in an object, an ECMA "
                "array and a strict array" + ("; random builder behaviours by simulation" + ("; depth 3 and 4" if thorough else "")) +
                "; each case carries the specification's encoding and, for trees with a non-empty strict array, the encoding and the "
                "decoding outcome under the named deviation StrictKeyed; a case is distinct if its JSON differs. "
                "LIVE (Amf0Live.tla: values as objects with identity): MC of every observation / call / observation history (thorough: two "
                "calls) on every node of three-level chains with LiveDecodes (the independent decoder maps the marshalled bytes to the value "
                "the node has NOW); GEN of every history marshal a / one call on x (Set of a new scalar or empty container under an existing "
                "or a new name, assignment through the pointer, replacement by the library's decoding of the specification's bytes) / "
                "marshal b with a, b at or above x, from 27 start trees built or decoded, plus random walks of 14 calls; every marshalled "
                "node must yield the specification's encoding of its current value")
    ctx.exhaustive = True
    ctx.assumptions += [
        "the independent encoder/decoder is the TLA+ specification (Enc as layout descriptors expanded by the format-agnostic LD expander, Dec evaluated by TLC); it shares no code with amf0.go",
        "names and string contents are byte patterns or the real ASCII names of onMetaData, not all byte strings",
        "the elements of a strict array have no positional accessor in the library: they are compared through the marshalled bytes",
        "live histories: one call between two observations exhaustively (27 start trees, <= 3 pairs per container), longer ones by random walk only (<= 10 objects, 14 calls); a tree is replaced by its decoded copy only while it holds no strict array with elements (known finding); no concurrent calls",
        "in a live history a marshalled value that holds a strict array with elements is classified as the known finding only if the bytes are exactly the StrictKeyed layout of its CURRENT value; the history is checked to its end and any other difference is a violation",
        "known finding C06/strict-array-keyed: a failing case is classified only if the tree holds a non-empty strict array AND the library's bytes equal the StrictKeyed encoding AND its decoding of the specification's bytes equals the StrictKeyed decoder's outcome predicted by the specification",
    ]
    ctx.sany("amf0", "Amf0")
    # thorough: the quick bounds once more with -coverage 1 (every action of the module is taken), then one more call
    ctx.tlc("amf0", "MC_Amf0", "MC_Amf0_spec.cfg", coverage=thorough, jopts=XMX)
    if thorough:
        ctx.tlc("amf0", "MC_Amf0", "MC_Amf0_spec.thorough.cfg", timeout=840, jopts=XMX)
    ctx.tlc("amf0", "MC_Amf0", "MC_Amf0_markers.cfg", jopts=XMX)
    # non-vacuity: a writer in the library's keyed strict-array layout read by the specification's decoder;
    # a decoder that skips unsupported markers
    ctx.tlc("amf0", "MC_Amf0", "MC_Amf0_spec_keyedwriter.cfg", expect_violation="RoundTrip", count_states=False, jopts=XMX)
    ctx.tlc("amf0", "MC_Amf0", "MC_Amf0_markers_skip.cfg", expect_violation="MarkersOk", count_states=False, jopts=XMX)
    # values as live objects (Amf0Live.tla): histories of calls - marshal, change below an attached node, assign a scalar in
    # place, replace a tree by its decoded copy, marshal again - exhaustively for observation / call / observation (thorough:
    # two calls) on every node of three-level chains; non-vacuity: a container that remembers its bytes and forgets them only
    # when Set is called on itself
    ctx.sany("amf0", "Amf0Live")
    # (the one-call bounds include start trees with one container made as a Go zero value; thorough adds the two-call bounds)
    ctx.tlc("amf0", "MC_Amf0Live", "MC_Amf0Live_spec.cfg", timeout=840, jopts=XMX)
    if thorough:
        ctx.tlc("amf0", "MC_Amf0Live", "MC_Amf0Live_spec.thorough.cfg", timeout=840, jopts=XMX)
    ctx.tlc("amf0", "MC_Amf0Live", "MC_Amf0Live_spec_cache.cfg", expect_violation="LiveDecodes", count_states=False, jopts=XMX)
    # non-vacuity of 'how the object came to be': a container whose marker byte only the New* constructors fill in
    ctx.tlc("amf0", "MC_Amf0Live", "MC_Amf0Live_spec_origin.cfg", expect_violation="LiveDecodes", count_states=False, jopts=XMX)
    cases = os.path.join(ctx.out, "cases.ndjson")
    ctx.tlc("amf0", "Gen_Amf0", "Gen_Amf0_c06.%s.cfg" % ctx.tier, cases_to=cases, timeout=840, jopts=XMX)
    # random New/Set behaviours of the builder (Set replacing values of existing names, nesting to depth 4);
    # num is per worker
    ctx.tlc("amf0", "Gen_Amf0", "Gen_Amf0_c06.sim.cfg", simulate=700 if thorough else 40, depth=80, cases_to=cases, timeout=600, jopts=XMX)
    # histories: every marshal a / one call on x / marshal b with a, b at or above x, from every three-level start tree, built
    # or decoded (exhaustive); random walks of 14 calls with objects detached, moved, shared, re-decoded (simulation)
    ctx.tlc("amf0", "Gen_Amf0Live", "Gen_Amf0Live_c06.%s.cfg" % ctx.tier, cases_to=cases, timeout=840, jopts=XMX)
    # how the objects came to be: every start tree with one container (root, child, grandchild) made as a zero value /
    # composite literal / new(T), or decoded into a declared zero value; marshal, Set on it, marshal (exhaustive)
    ctx.tlc("amf0", "Gen_Amf0Live", "Gen_Amf0Live_c06.origin.cfg", cases_to=cases, timeout=840, jopts=XMX)
    ctx.tlc("amf0", "Gen_Amf0Live", "Gen_Amf0Live_c06.walk.cfg", simulate=200 if thorough else 25, depth=40, cases_to=cases, timeout=600, jopts=XMX)
    res = ctx.replay("amf0spec", cases)
    ctx.judge("amf0spec", cases, res)
