"""C16: JOSE objects verify/decrypt only if untampered, for every algorithm (spec/jose/Jose.tla)."""
import os

DEVIATIONS = [  # (cfg suffix, invariant that must be reported violated)
    ("aad_not_authenticated", "AcceptIff"),
    ("reserialised_header", "AcceptIff"),
    ("inflate_skipped", "PayloadIntact"),
    # value classes: a payload whose tail looks like the PKCS #7 padding; a wrong key that starts with / is a prefix of the right one
    ("unpad_greedy", "PayloadIntact"),
    ("key_resized", "AcceptIff"),
]
JOPTS = ["-Xmx3g"]  # shared machine: every TLC run with a heap cap
HIST_DEVIATIONS = [  # spec/jose/JoseHist.tla: several parties, histories of calls on one parsed object
    ("open_consumes_object", "HistoryFree"),
    ("shared_entry_header", "HRoundTrip"),
]


def run(ctx):
    quick = ctx.tier == "quick"
    ctx.rule = (
        "a case is one object of the RFC 7518 matrix - JWS: 12 signature algorithms x every applicable key kind (HMAC keys of the hash "
        "size or larger, RSA-2048, the curve of the ES algorithm) x {plain, ACME-style: nonce + embedded JWK} ; JWE: the 14 key-management "
        "algorithms the library implements (no PBES2) x applicable key kinds (3 curves for ECDH-ES*) x 6 content encryptions x zip {none, DEF} "
        "x aad {absent, present} - x serialization {compact, JSON} x payload size {0, 1, 15, 16, 17, 1000}, together with every continuation "
        "the specification's state machine allows after Serialize: open with the same key, open with another key of the same kind, and one "
        "flipped bit in each field the serialization carries (protected header: any bit, the case bit of each member name, RS<->PS), each with "
        "the outcome the specification computes. %s VALUE CLASSES: (a) wrong keys RELATED to the right symmetric key K of dir / AxxxKW / "
        "AxxxGCMKW / HSxxx objects, on every object of the matrix with such a key: K + 1 octet, K + as many octets again (the size a sibling "
        "algorithm takes), K + one / as many zero octets (not HSxxx), K minus its last octet, the first half of K - and the same on objects "
        "made with a key whose second half is zero octets (a prefix = the key without trailing zeros), for every such key management x content "
        "encryption; each must fail. (b) payload content classes whose tail looks like the PKCS #7 padding the CBC encryptions append: last "
        "octet = 16-(L mod 16), a run of that octet as long as the padding, every octet that value (L=16: a block of 0x10), all 0x01, all 0x00 "
        "- for L = %s x 6 content encryptions (key management %s) and signed (%s); must come back whole. HISTORIES AND SEVERAL PARTIES (JoseHist.tla): a case is an object with 1..3 signers / "
        "recipients, each with its own algorithm and key (one party: every signature algorithm and every key management x key kind x content "
        "encryption; 2 and 3 parties: every sequence over the tier's alphabet of algorithms of different families, general JSON serialization, "
        "with and without embedded jwk), with behaviours replayed on ONE parsed object: every sequence of %s Open calls over {every party's key, "
        "another key of each party's kind, a key of a foreign kind}, then the object is serialized again and the copy opened with a party's key; "
        "and for every field of every entry (signature i, protected header i, encrypted key i, the shared fields) one flipped bit followed by "
        "all parties' keys in ascending then descending order. The specification demands: every party's key opens an untampered object to the "
        "original payload at any point of any history; no other key ever does; a key never opens an object whose shared fields or whose own "
        "entry were changed (a changed entry of ANOTHER party: either verdict, the payload must be the original). PRODUCER REUSE (JoseProd.tla): "
        "a case is ONE Encrypter / Signer (every key management x key kind, every signature algorithm, 2-recipient / 2-signer producers over an "
        "alphabet, signers with and without nonce source, both serializations) making every sequence of 2 and 3 objects with different payloads "
        "and SetCompression in {none, DEF} chosen before each; every object - serialized when made, and again after the producer made the later "
        "ones - must open with each party's key to ITS OWN payload and with no other key, as the specification computes for the k-th object. JWK: every key kind x {two ordinary keys, EC keys with a leading zero octet in X, in Y} x "
        "{public, private}. TLC enumerates the matrix; distinct = distinct cases; 'opens' in the notes counts the parse+verify/decrypt "
        "calls made on the real library."
        % ("Quick: the whole key-management matrix at payload size 17 and every payload size for dir, A128KW, RSA-OAEP, ECDH-ES; 3 seeded bits "
           "per field (first byte, last byte, anywhere)." if quick else
           "Thorough: the full product; 3 seeded bits per field, and EVERY bit of every field for the objects with a 1 byte payload.",
           "1..17, 32" if quick else "1..17, 31, 32, 33, 48, 1000",
           "dir, compact" if quick else "dir, A128KW, A256GCMKW, RSA-OAEP; compact and JSON",
           "HS256" if quick else "HS256, ES384",
           "2" if quick else "3 (one party) / 2"))
    ctx.exhaustive = True
    ctx.assumptions += [
        "the cryptography is uninterpreted in the model (perfect signatures/MACs/AEADs as constructor terms); the specification supplies the "
        "algorithm matrix, the fields each serialization carries, which octets are authenticated, the tamper and key-choice actions and the "
        "oracle; that a concrete flipped bit is detected is established only for the bits actually flipped on the real library",
        "keys: two fixed embedded RSA-2048 keys; EC keys derived from the seed, searched until keys with a leading zero octet in X and in Y "
        "exist for P-256/P-384/P-521 (objects are made with them in rotation); symmetric keys of exactly the size each algorithm needs",
        "a flipped bit is a bit of the base64url-DECODED octets of a compact segment / top-level JSON member (re-encoded canonically): "
        "trailing bits of a base64 character that do not change the decoded octets are not tampering and are not tried",
        "'fails with an error' includes failing to parse; a panic is a failure; signature / ciphertext bytes are never compared "
        "(ECDSA, PSS, OAEP, IVs, ephemeral keys are randomised)",
        "payload size 0 is an empty non-nil slice; aad, when present, is non-empty (RFC 7516: an empty aad is absent); compact serialization "
        "is only asked for objects without aad (RFC 7516 7.1 has no place for it)",
        "unprotected header members are outside the property's 'protected header' clause and never tampered with",
        "Thumbprint of a symmetric (oct) key: the RFC 7638 value or an explicit error are both accepted, a different value is not "
        "(the library refuses oct keys; RFC 7638 section 7 warns against thumbprints of secret keys)",
        "https/acme signContent and getKeyAuthorization are unexported: the same path is replayed through the jose API "
        "(RS256/ES256/ES384 signer with nonce source and embedded JWK, JSON serialization; key authorization = token '.' base64url(Thumbprint))",
        "ECDSA signatures are required to be R||S of the curve's fixed width (RFC 7518 3.4) since the library's own verifier rejects any other length",
        "producer reuse: the payloads of one sequence are 17, 40 and 5 octets; no tampering (orthogonal); the nonce VALUE in the header is "
        "not judged (the property speaks of payload and authenticated data)",
        "related wrong keys: nothing is claimed for HSxxx about K followed by zero octets / K without its trailing zero octets - RFC 2104 pads a "
        "short HMAC key with zeros, they are one key; the payload content classes are replayed without compression (with zip=DEF the content "
        "cipher pads the DEFLATE stream, whose tail the payload does not determine) and, like the related keys, without tampering (orthogonal)",
    ]
    ctx.sany("jose", "Jose")
    ctx.sany("jose", "Gen_Jose")
    # MC: the oracle holds on the specification for the whole matrix, every tamper class, both keys
    ctx.tlc("jose", "MC_Jose", "MC_Jose.cfg", coverage=not quick, jopts=JOPTS)
    # ... and with every payload content class x key variant x related wrong key, sizes 15/16/17 (PadValue 1, 16, 15)
    ctx.tlc("jose", "MC_Jose", "MC_Jose_values.cfg", jopts=JOPTS)
    # non-vacuity: each named deviation is caught by the invariant that states the clause it breaks
    for dev, inv in DEVIATIONS:
        ctx.tlc("jose", "MC_Jose", "MC_Jose_dev_%s.cfg" % dev, expect_violation=inv, count_states=False, workers=1, jopts=JOPTS)
    # GEN: the case matrix with expectations
    cases = os.path.join(ctx.out, "cases.ndjson")
    ctx.tlc("jose", "Gen_Jose", "Gen_Jose.%s.cfg" % ctx.tier, cases_to=cases, count_states=False, timeout=600, jopts=JOPTS)
    res = ctx.replay("jose", cases, timeout=1500)
    ctx.judge("jose", cases, res)
    # several parties and histories on one parsed object (JoseHist.tla)
    ctx.sany("jose", "JoseHist")
    ctx.sany("jose", "Gen_JoseHist")
    # MC: the invariants hold on the specification for all behaviours: 1..2 parties, 2 steps (quick), and 1..3 parties, 3 steps
    ctx.tlc("jose", "MC_JoseHist", "MC_JoseHist.cfg", coverage=not quick, jopts=JOPTS)
    if not quick:
        ctx.tlc("jose", "MC_JoseHist", "MC_JoseHist_deep.cfg", jopts=JOPTS)
    for dev, inv in HIST_DEVIATIONS:
        ctx.tlc("jose", "MC_JoseHist", "MC_JoseHist_dev_%s.cfg" % dev, expect_violation=inv, count_states=False, workers=1, jopts=JOPTS)
    hcases = os.path.join(ctx.out, "hist_cases.ndjson")
    ctx.tlc("jose", "Gen_JoseHist", "Gen_JoseHist.%s.cfg" % ctx.tier, cases_to=hcases, count_states=False, timeout=900, jopts=JOPTS)
    hres = ctx.replay("hist", hcases, timeout=1500)
    ctx.judge("hist", hcases, hres)
    # producer reuse (JoseProd.tla): one Encrypter / Signer makes a sequence of objects
    ctx.sany("jose", "Gen_JoseProd")   # parses JoseProd, JoseHist, Jose with it
    ctx.tlc("jose", "MC_JoseProd", "MC_JoseProd.cfg", jopts=JOPTS)
    ctx.tlc("jose", "MC_JoseProd", "MC_JoseProd_dev_producer_header_cached.cfg", expect_violation="ProdRoundTrip",
            count_states=False, workers=1, jopts=JOPTS)
    pcases = os.path.join(ctx.out, "prod_cases.ndjson")
    ctx.tlc("jose", "Gen_JoseProd", "Gen_JoseProd.%s.cfg" % ctx.tier, cases_to=pcases, count_states=False, jopts=JOPTS)
    pres = ctx.replay("prod", pcases, timeout=900)
    ctx.judge("prod", pcases, pres)
    ctx.notes["producer_sequences"] = sum((r.get("info") or {}).get("runs", 0) for r in pres)
    ctx.notes["producer_opens"] = sum((r.get("info") or {}).get("opens", 0) for r in pres)
    ctx.notes["runs"] = sum((r.get("info") or {}).get("runs", 0) for r in res)
    ctx.notes["opens"] = sum((r.get("info") or {}).get("opens", 0) for r in res)
    ctx.notes["hist_behaviours"] = sum((r.get("info") or {}).get("runs", 0) for r in hres)
    ctx.notes["hist_opens"] = sum((r.get("info") or {}).get("opens", 0) for r in hres)
    # re-serialized copies of a freshly parsed, untampered object that do not open (not judged: the property does not speak of them)
    ctx.notes["hist_reserialization_lossy"] = sum((r.get("info") or {}).get("lossy", 0) for r in hres)
