"""C18: connection ids are unique and log lines whole under concurrency (spec/logger/LoggerCid.tla).

Direction code -> model: the Go scheduler chooses the interleaving, the run is recorded (contexts made,
aliases, logging calls, every Write call at the writer) and Trace_LoggerCid.tla accepts the recording or
not; TLC also checks every interleaving of the specification itself within small bounds. The replayer
is built with -race: a race report that involves the logger package violates the data-race clause.
"""
import json
import os
import re

from lib import vlib

RACE = {"logger": True}
STAGE = "logger"
OBJ_DEV = "C18/obj-cid-dropped"
MAX_REPRO = 5
HEAP = ["-Xmx3g"]      # the machine is shared: every TLC run gets a heap cap


def _gorace(d):
    return {"GORACE": "halt_on_error=0 exitcode=0 log_path=%s" % os.path.join(d, "race")}


def _validate(ctx, trace_path, cfg, name):
    """Run Trace_LoggerCid on a trace file: (consumed, total). Anything but a verdict is Broken."""
    info = ctx.tlc("logger", "Trace_LoggerCid", cfg, name=name, files={"trace.ndjson": trace_path},
                   workers=1, count_states=False, timeout=1500, jopts=HEAP)
    m = None
    for line in open(info["log"]):
        m = re.match(r'<<"TRACE", (\d+), (\d+)>>', line) or m
    if not m:
        raise vlib.Broken("Trace_LoggerCid printed no verdict (log %s)" % info["log"])
    consumed, total = int(m.group(1)), int(m.group(2))
    nlines = sum(1 for l in open(trace_path) if l.strip())
    if total != nlines or consumed > total:
        raise vlib.Broken("Trace_LoggerCid read %d events, the trace has %d (log %s)" % (total, nlines, info["log"]))
    return consumed, total


def _concat(paths, dst):
    with open(dst, "w") as out:
        for p in paths:
            with open(p) as f:
                out.write(f.read())
    return dst


def _event_text(ev):
    e = dict(ev)
    if e.get("e") == "new":
        return "new(g=%d, context %s, id=%d): the id was already handed out in this process" % (e["g"], e["c"], e["id"])
    if e.get("e") == "alias":
        return "alias(g=%d, context %s, source %s, id=%d): not the source's id (or, for a source without id, not a fresh one)" % (
            e["g"], e["c"], e["src"], e["id"])
    if e.get("e") == "log":
        return "log(g=%d, call %d, logger.%s, level %s, ctx %s): writes at the writer %s are not exactly the one line of the specification" % (
            e["g"], e["k"], e.get("fn"), e["level"], e["arg"], e["w"])
    if e.get("e") == "write":
        return "write #%s at the writer belongs to no logging call: %r" % (e.get("idx"), e.get("raw"))
    return json.dumps(e)


def _rejection(trace_path, consumed):
    """(run index, event) of the first event the specification does not allow."""
    run = None
    for n, line in enumerate(l for l in open(trace_path) if l.strip()):
        ev = json.loads(line)
        if ev["e"] == "reset":
            run = ev["run"]
        if n == consumed:
            return run, ev
    raise vlib.Broken("rejected event %d not in %s" % (consumed + 1, trace_path))


def _is_duplicate(trace_path, consumed, ev):
    """the rejected event hands out an id that an earlier event of the process already handed out"""
    if ev.get("e") not in ("new", "alias") or (ev["e"] == "alias" and ev["src"]["k"] == "ctx"):
        return False
    for n, line in enumerate(l for l in open(trace_path) if l.strip()):
        if n >= consumed:
            return False
        e = json.loads(line)
        if e["e"] in ("new", "alias") and e["id"] == ev["id"] and (e["e"] == "new" or e["src"]["k"] != "ctx"):
            return True
    return False


def _self_test(ctx, trace_path, cfg):
    """Binding of the trace specification: corrupt one recorded field, TLC must reject exactly there."""
    lines = [l for l in open(trace_path) if l.strip()]
    evs = [json.loads(l) for l in lines]
    news = [k for k, e in enumerate(evs) if e["e"] == "new"]
    if len(news) < 2:
        raise vlib.Broken("self-test: the recorded trace has fewer than two new events")
    tests = []
    k = news[len(news) // 2]
    e = dict(evs[k], id=evs[news[0]]["id"])
    tests.append(("dupid", k, e))
    # a call that shifted the caller's operand slice by one cell (what the deviation C18/prefix-inserted-in-place leaves behind)
    wn = [k for k, e in enumerate(evs) if e["e"] == "log" and e["src"]["k"] == "win" and e["src"]["n"] < len(e["after"])]
    if not wn:
        raise vlib.Broken("self-test: the recorded trace has no logging call with operands from a slice with spare capacity")
    k = wn[len(wn) // 2]
    a = evs[k]["after"]
    n = evs[k]["src"]["n"]
    tests.append(("operands", k, dict(evs[k], after=[0] + a[:n] + a[n + 1:])))
    if ctx.tier == "thorough":
        al = [k for k, e in enumerate(evs) if e["e"] == "alias" and e["src"]["k"] == "ctx"]
        if al:
            k = al[len(al) // 2]
            tests.append(("aliasid", k, dict(evs[k], id=evs[k]["id"] + 1)))
        lg = [k for k, e in enumerate(evs) if e["e"] == "log" and e["arg"]["k"] == "ctx" and len(e["w"]) == 1]
        if lg:
            k = lg[len(lg) // 2]
            w = dict(evs[k]["w"][0])
            w["cid"] += 1
            tests.append(("logcid", k, dict(evs[k], w=[w])))
    done = []
    for name, k, e in tests:
        p = os.path.join(ctx.out, "selftest_%s.ndjson" % name)
        with open(p, "w") as f:
            f.writelines(lines[:k])
            f.write(json.dumps(e) + "\n")
            f.writelines(lines[k + 1:])
        consumed, total = _validate(ctx, p, cfg, "Trace_LoggerCid.selftest_" + name)
        if consumed != k:
            raise vlib.Broken("self-test %s: event %d of the recorded trace was corrupted (%s) but Trace_LoggerCid consumed %d of %d events: "
                              "the trace specification does not bind" % (name, k + 1, json.dumps(e)[:200], consumed, total))
        done.append(name)
    return done


def run(ctx):
    quick = ctx.tier == "quick"
    ctx.rule = ("MC: every interleaving of the specification's actions (New under the lock, Alias, Log = one write that only reads its operands) "
                "in %s factored families - ids (3 goroutines x 2 contexts, new or alias of any context made so far), lines (3 goroutines x 2 logging "
                "calls, routed and discarded level, nil and Cid() object), mixed (%s), operands (%s), %svalues (1 goroutine x 2 calls, all 12 message shapes x both forms x all context kinds x 6 "
                "classes of Cid()). TRACE: a case is one recorded execution of "
                "the real package (the main goroutine alone first, then N goroutines released together, each making `ops` seeded random calls of "
                "WithContext / AliasContext / I,If,T,Tf,W,Wf,E,Ef and Logger.Println/Printf of every level with nil, Cid() object, context with id, "
                "context without id; Cid() of every class in the descriptor (0, -1, negative, 32/64-bit extremes, small, the library's range); "
                "rendered message of every shape in the descriptor (empty, interior / trailing newlines, CR, CRLF, > 4 KiB, > 64 KiB; the main goroutine "
                "logs every shape and every id class through both call forms); operands written out in the call, or a window back[:n] (n = 1..cap) of the goroutine's own slice used again call "
                "after call, or of a slice all goroutines pass read-only at the same time, capacities from the descriptor) under the race detector, "
                "with its run descriptor (goroutines x calls x action mix x operand mix x capacities x message shapes x id classes) enumerated by TLC; the recording is accepted "
                "by Trace_LoggerCid iff every new id is fresh in the process, every alias carries its source's id, every logging call produced "
                "exactly one Write - the unit is the Write call, not the text line - that holds the right label, '[pid][cid]' / '[pid]' and the message its operands - as the "
                "application filled them - format to, and left the caller's slice up to its capacity as it was"
                % ("five" if quick else "six",
                   "3 goroutines x 1 context x 1 call, all kinds" if quick else "2 goroutines x 2 contexts x 2 calls, all kinds",
                   "2 goroutines x 2 calls, windows 0..2 of one shared slice of capacity 2, prefixed and unprefixed context" if quick else
                   "2 goroutines x 1 context x 2 calls, windows 1..3 of one shared slice of capacity 3, library-made and id-less context",
                   "" if quick else "messages (2 goroutines x 2 calls, println/printf form, plain or interior-newline message, Cid() 0 and -1), "))
    ctx.exhaustive = False
    ctx.assumptions += [
        "schedules of the real code are sampled by the Go scheduler (16 cores, GOMAXPROCS default), not enumerated; exhaustiveness holds for the specification only",
        "a context's id is not readable through the public API: it is read after the concurrent phase by logging the context once through T and once through Tf "
        "and parsing '[pid][cid]' (both must agree)",
        "Info is routed to ioutil.Discard by Switch: an Info call is accepted with no write at the writer (or one correct line)",
        "for a context.Context without id the property fixes no prefix: label, wholeness and message are judged, the prefix is not",
        "one or two spaces after the bracketed prefix are both accepted (none is demanded before an empty message); timestamps are checked for "
        "shape only; newlines at the END of a message are not compared (the write must end in a newline), everything else of it is, byte for byte",
        "an empty message carries no token: only the main goroutine logs one, while it is alone (the writes that arrive during its call are its)",
        "a Cid() outside 1..2^31-1 is written into the trace as a code (TLC integers are 32-bit); the replayer compares the printed decimal text",
        "colour escape codes the library prints to os.Stdout for Warn/Error when the writer is no io.Closer do not reach the writer and are not judged",
        "goroutines log and alias with their own contexts and with contexts made by the main goroutine before they start, not with each other's",
        "a println-style call whose operands all come from a slice shared by the goroutines has no token of its own: its write is the one with "
        "that slice's token, the call's label, prefix and message that no other such call has been given (multiset matching)",
        "the message of the property is what the operands format to as the application filled them; a call that changes the caller's operand "
        "slice (up to its capacity) is reported even if no later call prints the changed cells; slices passed concurrently hold strings only",
    ]
    for m in ("LoggerCid", "Trace_LoggerCid", "Gen_LoggerCid"):
        ctx.sany("logger", m)

    # MC: the property holds on the specification, all interleavings within the bounds (three factored families)
    cov = not quick
    # unbounded in depth: the uniqueness invariant of the id counter is inductive (Apalache), and the same
    # obligation fails for the unsynchronised read/write pair (spec/proofs/CidCounter.tla)
    # and for any number of processes: the same argument as a machine-checked TLAPS proof (Spec => []Unique)
    ctx.tlapm("proofs", "CidCounterProof")
    if not quick:
        ctx.apalache("proofs", "CidCounter", "apalache_atomic.cfg", "Init", "IndInv", 0)
        ctx.apalache("proofs", "CidCounter", "apalache_atomic.cfg", "IndInit", "IndInv", 1)
        ctx.apalache("proofs", "CidCounter", "apalache_nonatomic.cfg", "IndInit", "IndInv", 1, expect_error=True)
    ctx.tlc("logger", "LoggerCid", "MC_LoggerCid_ids.cfg", coverage=cov, jopts=HEAP)
    ctx.tlc("logger", "LoggerCid", "MC_LoggerCid_lines.cfg", coverage=cov, jopts=HEAP)
    ctx.tlc("logger", "LoggerCid", "MC_LoggerCid.quick.cfg", coverage=cov, jopts=HEAP)
    ctx.tlc("logger", "LoggerCid", "MC_LoggerCid_operands.quick.cfg", coverage=cov, jopts=HEAP)
    ctx.tlc("logger", "LoggerCid", "MC_LoggerCid_values.cfg", coverage=cov, jopts=HEAP)
    if not quick:
        ctx.tlc("logger", "LoggerCid", "MC_LoggerCid.thorough.cfg", timeout=800, jopts=HEAP)
        ctx.tlc("logger", "LoggerCid", "MC_LoggerCid_msgs.cfg", coverage=cov, jopts=HEAP)
        ctx.tlc("logger", "LoggerCid", "MC_LoggerCid_operands.thorough.cfg", timeout=800, jopts=HEAP)
    # non-vacuity: each named deviation is caught by the invariant that states the clause it breaks
    ctx.tlc("logger", "LoggerCid", "MC_LoggerCid_nonatomic.cfg", expect_violation="Unique", count_states=False, workers=1, jopts=HEAP)
    ctx.tlc("logger", "LoggerCid", "MC_LoggerCid_splitline.cfg", expect_violation="WholeLines", count_states=False, workers=1, jopts=HEAP)
    ctx.tlc("logger", "LoggerCid", "MC_LoggerCid_objcid.cfg", expect_violation="WholeLines", count_states=False, workers=1, jopts=HEAP)
    # C18/prefix-inserted-in-place: the caller's operand slice is changed by the first call (OperandsUntouched), and the
    # line of the NEXT call with that slice is wrong at the writer (WholeLines, when OperandsUntouched is not looked at)
    ctx.tlc("logger", "LoggerCid", "MC_LoggerCid_inplace.cfg", expect_violation="OperandsUntouched", count_states=False, workers=1, jopts=HEAP)
    # C18/split-at-newline: a write that is not the call's whole line (WholeLines); with two goroutines another line
    # lands between the pieces (Adjacent). C18/obj-cid-unsigned: the cid of a println-style line is not the object's
    ctx.tlc("logger", "LoggerCid", "MC_LoggerCid_msgsplit.cfg", expect_violation="WholeLines", count_states=False, workers=1, jopts=HEAP)
    ctx.tlc("logger", "LoggerCid", "MC_LoggerCid_unsignedcid.cfg", expect_violation="WholeLines", count_states=False, workers=1, jopts=HEAP)
    if not quick:
        ctx.tlc("logger", "LoggerCid", "MC_LoggerCid_msgsplit_between.cfg", expect_violation="Adjacent", count_states=False, workers=1, jopts=HEAP)
        ctx.tlc("logger", "LoggerCid", "MC_LoggerCid_inplace_line.cfg", expect_violation="WholeLines", count_states=False, workers=1, jopts=HEAP)

    # GEN: run descriptors
    cases = os.path.join(ctx.out, "cases.ndjson")
    ctx.tlc("logger", "Gen_LoggerCid", "Gen_LoggerCid.%s.cfg" % ctx.tier, cases_to=cases, count_states=False, workers=1, jopts=HEAP)
    descs = ctx.load_cases(cases)
    if not descs or any(json.loads(d)["n"] > 64 for d in descs):
        raise vlib.Broken("run descriptors missing or with more goroutines than Trace_LoggerCid.cfg allows (N = 64)")

    # REPLAY: record executions of the real package under the race detector
    tdir = os.path.join(ctx.out, "traces")
    os.environ.update(_gorace(tdir))       # also for the isolated re-runs
    res = ctx.replay(STAGE, cases, race=True, dir=tdir, env_extra=_gorace(tdir))
    ctx.judge(STAGE, cases, res, race=True, reproduce=False)     # accounting; failures are reproduced below
    harness_fails = list(ctx.fail_results)
    ctx.fail_results[:] = []
    if "DATA RACE" in (ctx.last_stderr or ""):
        raise vlib.Broken("race report on stderr although GORACE log_path is set:\n%s" % ctx.last_stderr[-2000:])
    tot = {k: sum(r["info"][k] for r in res) for k in ("events", "new", "alias", "log", "routed", "writes", "bufs", "win")}
    ctx.notes["trace_events"] = tot
    ctx.notes["runs"] = [dict(json.loads(d), **{k: r["info"][k] for k in ("events", "new", "alias", "log", "writes", "bufs", "win")}) for d, r in zip(descs, res)]

    def rerun(desc, tag):
        """One more recorded execution of a descriptor, alone in a fresh process."""
        single = os.path.join(ctx.out, "single_%s.ndjson" % tag)
        with open(single, "w") as f:
            f.write(desc + "\n")
        d = os.path.join(ctx.out, "traces_" + tag)
        rr = ctx.replay(STAGE, single, race=True, dir=d, env_extra=_gorace(d))
        return rr[0]

    # a failure counts if it shows again (same class) in one of MAX_REPRO fresh executions of the same descriptor
    repro_tries = 0
    seen_classes = {}
    for name, case, r in harness_fails:
        cls = r.get("deviation") or "?"
        if cls in seen_classes:
            ctx.fail_results.append((name, case, r))
            continue
        again = None
        for k in range(MAX_REPRO):
            repro_tries += 1
            r2 = rerun(descs[r["i"]], "repro")
            if not r2["ok"] and (r2.get("deviation") or "?") == cls:
                again = r2
                break
        if again is None and cls == "C18/data-race":
            # a report of the Go race detector is evidence in itself (it has no false positives and carries both
            # stacks): a race that needs a rare overlap does not have to show again to count
            r = dict(r)
            r["what"] = (r.get("what") or "") + " [reported once; did not show again in %d fresh executions]" % MAX_REPRO
            again = r
        if again is None:
            raise vlib.Broken("failure of a recorded run did not show again in %d fresh executions: %s" % (MAX_REPRO, json.dumps(r)[:800]))
        seen_classes[cls] = True
        ctx.fail_results.append((name, case, r))
    failed_runs = set(r["i"] for _, _, r in ctx.fail_results)

    # TRACE: all runs of the batch (one process), validated in one TLC run. If the replayer saw the named deviation
    # C18/obj-cid-dropped (reported above), the rest is validated against the specification with that deviation switched on.
    dev_obj = any(r.get("info", {}).get("n_" + OBJ_DEV) for r in res)
    cfg = "Trace_LoggerCid_objcid.cfg" if dev_obj else "Trace_LoggerCid.cfg"
    paths = [r["info"]["trace"] for r in res]
    remaining = list(range(len(res)))
    validated = 0
    round_ = 0
    while remaining:
        round_ += 1
        if round_ > 4:
            break
        allp = _concat([paths[k] for k in remaining], os.path.join(ctx.out, "trace_all_%d.ndjson" % round_))
        consumed, total = _validate(ctx, allp, cfg, "Trace_LoggerCid.batch%d" % round_)
        if consumed == total:
            validated += len(remaining)
            break
        run_idx, ev = _rejection(allp, consumed)
        pos = remaining.index(run_idx)
        validated += pos
        what = "recorded execution rejected by Trace_LoggerCid at event %d of the batch (run %d, %s): %s" % (
            consumed + 1, run_idx, descs[run_idx], _event_text(ev))
        # reproducible? fresh executions of the same descriptor, each validated on its own
        # the run already failed reproducibly in the replayer: the rejection is the same execution seen by the model
        again = run_idx in failed_runs
        for k in range(0 if again else MAX_REPRO):
            r2 = rerun(descs[run_idx], "trepro")
            c2, t2 = _validate(ctx, r2["info"]["trace"], cfg, "Trace_LoggerCid.repro")
            if c2 < t2:
                again = True
                break
        if not again:
            raise vlib.Broken("trace rejection did not show again in %d fresh executions: %s" % (MAX_REPRO, what))
        ctx.fail_results.append((STAGE, json.loads(descs[run_idx]),
                                 {"i": run_idx, "ok": False, "what": what, "observed": ev,
                                  "deviation": "C18/duplicate-id" if _is_duplicate(allp, consumed, ev) else ""}))
        remaining = remaining[pos + 1:]
    ctx.traces_validated = validated
    ctx.notes["trace_cfg"] = cfg

    # the trace specification binds: a corrupted recording must be rejected at the corrupted event
    if validated == len(res):
        bal = [k for k, d in enumerate(descs) if json.loads(d)["mix"]["name"] == "balanced"] or [0]
        k = min(bal, key=lambda j: res[j]["info"]["events"])
        ctx.notes["self_tests"] = _self_test(ctx, paths[k], cfg)
