"""X02 (extra check, no listed property): the context package fork https/net/context
(spec/context/CtxTree.tla, CtxTreePre17.tla, Gen_CtxTree.tla; harness/cmd/x02).

What is live. go17.go (`+build go1.7`) is what every installed toolchain compiles: WithCancel / WithDeadline /
WithTimeout / WithValue / Background / TODO / Canceled / DeadlineExceeded are thin wrappers around the standard
library's context package. pre_go17.go (`+build !go1.7`), the hand written cancellation tree, cannot be selected by
any flag of go >= 1.7 (release tags are always set). Both are replayed:
  stages seq, conc             the package as users get it (wrappers + standard library);
  stages pre17_seq, pre17_conc the hand written tree, compiled through `go build -overlay`: pre_go17.go exactly as
                               it is in the working tree with nothing but its constraint line removed, go17.go switched
                               off, and a read-only export of len(cancelCtx.children) added (harness/cmd/x02/
                               pre17_export.go.txt). Nothing in /repo is touched. Verdicts of these stages are about
                               code that no user of a current toolchain runs; they are labelled pre17_.
"""
import json
import os
import re
import subprocess
import time

from lib import vlib

RACE = {"conc": True, "pre17_conc": True}
PKG = "https/net/context"
CONC_REPRO = 5
SEQ_REPRO = 2

# ---------------------------------------------------------------------------------------------------------------
# The pre17 variant needs build flags (-overlay, an extra tag) that Ctx.go_build does not take. The two methods are
# wrapped for this process only (vcheck imports just this check module), so that ctx.replay / ctx.judge /
# `vcheck X02 --replay file` pick the right binary from the stage name. lib/vlib.py itself is unchanged.
_orig_go_build = vlib.Ctx.go_build
_orig_replay = vlib.Ctx.replay


def _retag(repo, dst):
    """pre_go17.go of the working tree with its build constraint removed; go17.go switched off; overlay.json."""
    src = os.path.join(repo, PKG, "pre_go17.go")
    live = os.path.join(repo, PKG, "go17.go")
    if not (os.path.exists(src) and os.path.exists(live)):
        raise vlib.Broken("%s: pre_go17.go / go17.go not found" % os.path.join(repo, PKG))
    text = open(src).read()
    pat = re.compile(r"^//\s*(\+build|go:build)\s+!go1\.7\s*$", re.M)
    if not pat.search(text):
        raise vlib.Broken("pre_go17.go carries no `!go1.7` constraint any more: revisit checks/x02.py")
    text = pat.sub("// (X02: the build constraint !go1.7 of this line was removed for the overlay build)", text)
    if re.search(r"^//\s*(\+build|go:build)\s", text, re.M):
        raise vlib.Broken("pre_go17.go has further build constraints: revisit checks/x02.py")
    os.makedirs(dst, exist_ok=True)
    on = os.path.join(dst, "pre_go17_on.go")
    off = os.path.join(dst, "go17_off.go")
    with open(on, "w") as f:
        f.write(text)
    with open(off, "w") as f:
        f.write("//go:build ignore\n\npackage context\n")
    ov = {"Replace": {src: on, live: off,
                      os.path.join(repo, PKG, "zz_x02_export.go"): os.path.join(vlib.HARNESS, "cmd", "x02", "pre17_export.go.txt")}}
    p = os.path.join(dst, "overlay.json")
    with open(p, "w") as f:
        json.dump(ov, f, indent=1)
    return p


def _build_pre17(self, race):
    key = "pre17-race" if race else "pre17-plain"
    if key in self.bins:
        return self.bins[key]
    overlay = _retag(vlib.REPO, os.path.join(self.out, "overlay"))
    bindir = os.path.join(vlib.OUT, "bin")
    os.makedirs(bindir, exist_ok=True)
    binp = os.path.join(bindir, "replay-%s-%s" % (os.path.basename(self.out), key))   # as Ctx.go_build: one per property and tree
    env = dict(os.environ)
    env.update(vlib.GOENV)
    cmd = ["go", "build", "-tags", "verif,x02pre17", "-overlay", overlay]
    if vlib.REPO != "/repo":
        alt = os.path.join(self.out, "alt17.mod")
        with open(os.path.join(vlib.HARNESS, "go.mod")) as f:
            mod = f.read().replace("=> /repo", "=> " + vlib.REPO)
        with open(alt, "w") as f:
            f.write(mod)
        open(os.path.join(self.out, "alt17.sum"), "w").close()
        cmd.append("-modfile=" + alt)
    if race:
        cmd.append("-race")
    cmd += ["-o", binp, "./cmd/x02"]
    t0 = time.time()
    r = subprocess.run(cmd, cwd=vlib.HARNESS, env=env, stdout=subprocess.PIPE, stderr=subprocess.STDOUT, text=True)
    if r.returncode != 0:
        # a pre_go17.go that does not compile is not a verdict about behaviour; nobody compiles it today either
        raise vlib.Broken("overlay build of the pre-go1.7 implementation against %s failed:\n%s" % (vlib.REPO, r.stdout[-4000:]))
    vlib.log("go build (%s, overlay) %.1fs" % (key, time.time() - t0))
    self.bins[key] = binp
    return binp


def _go_build(self, race=False):
    if getattr(self, "x02_variant", "live") == "pre17":
        return _build_pre17(self, race)
    return _orig_go_build(self, race)


def _replay(self, name, *a, **kw):
    self.x02_variant = "pre17" if name.startswith("pre17_") else "live"
    try:
        return _orig_replay(self, name, *a, **kw)
    finally:
        self.x02_variant = "live"


vlib.Ctx.go_build = _go_build
vlib.Ctx.replay = _replay
# ---------------------------------------------------------------------------------------------------------------


def _gorace(d):
    os.makedirs(d, exist_ok=True)
    return {"GORACE": "halt_on_error=0 exitcode=0 log_path=%s" % os.path.join(d, "race")}


def _need(info, n, what):
    if info["cases"] < n:
        raise vlib.Broken("%s emitted %d cases, expected at least %d (log %s)" % (what, info["cases"], n, info["log"]))


def _cls(r):
    return (r.get("info") or {}).get("class") or r.get("deviation") or "?"


def _seq_stage(ctx, stage, cases):
    """Sequential stage. Failures are grouped by class (Done / Err / Deadline / Value / registry / panic / named deviation);
    SEQ_REPRO cases per class are run again alone in a fresh process and must fail again."""
    res = ctx.replay(stage, cases)
    n0 = len(ctx.fail_results)
    ctx.judge(stage, cases, res, reproduce=False)
    fails = ctx.fail_results[n0:]
    del ctx.fail_results[n0:]
    done = {}
    for n, case, r in fails:
        k = _cls(r)
        if done.get(k, 0) < SEQ_REPRO:
            done[k] = done.get(k, 0) + 1
            single = os.path.join(ctx.out, "single_%s.ndjson" % stage)
            # the replayer picks Background / TODO by case index: keep the parity class of the index
            with open(single, "w") as f:
                f.write("".join(json.dumps(case) + "\n" for _ in range(4)))
            rr = ctx.replay(stage, single)
            if all(x["ok"] for x in rr):
                raise vlib.Broken("failure of the %s stage not reproducible in isolation: %s" % (stage, json.dumps(r)[:800]))
        ctx.fail_results.append((n, case, r))
    return res


def _conc_stage(ctx, stage, cases):
    """Concurrent stage under the race detector. A failure counts if it shows again in one of CONC_REPRO fresh processes
    running the case alone with many more rounds (a race report: the whole batch again): schedules are the Go scheduler's."""
    rdir = os.path.join(ctx.out, "race_" + stage)
    res = ctx.replay(stage, cases, race=True, env_extra=_gorace(rdir))
    if "DATA RACE" in (ctx.last_stderr or ""):
        raise vlib.Broken("race report on stderr although GORACE log_path is set:\n%s" % ctx.last_stderr[-2000:])
    n0 = len(ctx.fail_results)
    ctx.judge(stage, cases, res, race=True, reproduce=False)
    fails = ctx.fail_results[n0:]
    del ctx.fail_results[n0:]
    seen = {}
    for n, case, r in fails:
        cls = _cls(r)
        if cls not in seen:
            single = os.path.join(ctx.out, "single_%s.ndjson" % stage)
            with open(single, "w") as f:
                f.write("".join(json.dumps(case) + "\n" for _ in range(4)))
            again = False
            for k in range(CONC_REPRO):
                if cls == "X02/data-race":
                    # the detector cannot always say which case raced: the whole batch again, in a fresh process
                    rr = ctx.replay(stage, cases, race=True, env_extra=_gorace(rdir + "_repro"))
                    hit = any(x.get("deviation") == "X02/data-race" for x in rr)
                else:
                    rr = ctx.replay(stage, single, race=True, env_extra=_gorace(rdir + "_repro"), extra={"rounds": 100})
                    hit = any(not x["ok"] for x in rr)
                if hit:
                    again = True
                    break
            if not again:
                raise vlib.Broken("failure of the %s stage did not show again in %d fresh processes x 100 rounds: %s"
                                  % (stage, CONC_REPRO, json.dumps(r)[:800]))
            seen[cls] = True
        ctx.fail_results.append((n, case, r))
    return res


def run(ctx):
    quick = ctx.tier == "quick"
    t = ctx.tier
    ctx.rule = ("MC: every behaviour of the contract CtxTree (WithCancel / WithDeadline / WithTimeout / WithValue / CancelFunc / Tick, atomic) "
                "within factored bounds - cancel+value trees, deadline trees over 3 instants, value trees with 2 keys x 2 values - and every "
                "interleaving of the lock-level model CtxTreePre17 of the hand written tree (2-3 goroutines calling CancelFuncs / constructors at "
                "once, timer goroutines, every tree shape of the setup bound). REPLAY: a case is one behaviour of CtxTree with the specification's "
                "Done / Err / Deadline / Value (registry size for the pre-1.7 tree) of EVERY context after EVERY step; exhaustive families "
                "(all behaviours of the family's calls to the family's depth) plus seeded random behaviours of depth %d; concurrent cases: a "
                "sequential prefix, then cancels / derivations of existing contexts released at once from one goroutine each under -race, the "
                "final state must be the specification's (ParOrderFree: it does not depend on the order). A case is distinct if its JSON differs"
                % (10 if quick else 14))
    ctx.exhaustive = False
    ctx.assumptions += [
        "live variant (go17.go): the wrappers and the installed standard library's context package are judged together; the toolchain is part of the result",
        "pre17 variant: pre_go17.go is compiled with its `+build !go1.7` line removed through `go build -overlay` (no toolchain >= 1.7 compiles it otherwise) plus a "
        "read-only export of len(children); verdicts of the pre17_ stages concern code that is dead on every current toolchain",
        "time: abstract instants are embedded in real time per case (past = one hour ago, reached by a tick = start + k x delta with delta 40 ms / 400 ms / 4 s, "
        "never reached = in one hour); a tick sleeps until its instant and blocks on Done (30 s bound) for what must close; after every step the clock must show that the "
        "next instant is not reached, else the attempt is discarded and repeated with the next delta (never a verdict); exact firing times are not judged",
        "Deadline() of a WithTimeout context is judged against [now_before_call + timeout, now_after_call + timeout]; a tie between contexts asking for the same instant "
        "is accepted either way",
        "concurrent stage: schedules are sampled by the Go scheduler (3 / 6 rounds per case), not enumerated; exhaustiveness over interleavings holds for the TLA+ models only; "
        "the interleavings of CtxTreePre17 are not replayed on the code",
        "keys are values of one named string type; values are strings; custom Context implementations as parents (the goroutine path of propagateCancel) are not covered",
    ]

    # ---- MC: the contract
    cov = not quick
    for fam in ("cancel", "time", "value"):
        ctx.tlc("context", "CtxTree", "MC_CtxTree_%s.%s.cfg" % (fam, t), coverage=cov and fam != "time", timeout=900)
    if not quick:
        # the small time family once more with per-action coverage (the large one runs without): every action taken
        ctx.tlc("context", "CtxTree", "MC_CtxTree_time.quick.cfg", name="CtxTree.MC_CtxTree_time.coverage", coverage=True, count_states=False)
    # non-vacuity: each named deviation breaks the invariant that states its clause
    ctx.tlc("context", "CtxTree", "MC_CtxTree_dev_nograndchildren.cfg", expect_violation="DownwardClosed", count_states=False, workers=1)
    ctx.tlc("context", "CtxTree", "MC_CtxTree_dev_overwrite.cfg", expect_violation="FirstCauseWins", count_states=False, workers=1)
    if not quick:
        ctx.tlc("context", "CtxTree", "MC_CtxTree_dev_owndeadline.cfg", expect_violation="DeadlineIsMin", count_states=False, workers=1)

    # ---- MC: the hand written tree at lock level, all interleavings
    ctx.tlc("context", "CtxTreePre17", "MC_CtxTreePre17_cancel.%s.cfg" % t, coverage=cov, timeout=900)
    ctx.tlc("context", "CtxTreePre17", "MC_CtxTreePre17_timer.%s.cfg" % t, timeout=900)
    if not quick:
        ctx.tlc("context", "CtxTreePre17", "MC_CtxTreePre17_timer.quick.cfg", name="CtxTreePre17.MC_CtxTreePre17_timer.coverage", coverage=True, count_states=False)
    ctx.tlc("context", "CtxTreePre17", "MC_CtxTreePre17_dev_norecheck.cfg", expect_violation="ClosedOnce", count_states=False, workers=1)
    if not quick:
        ctx.tlc("context", "CtxTreePre17", "MC_CtxTreePre17_dev_unlockearly.cfg", expect_violation="LockedPropagation", count_states=False, workers=1)

    # ---- GEN
    seq = os.path.join(ctx.out, "cases.ndjson")
    conc = os.path.join(ctx.out, "cases_conc.ndjson")
    nsim = 250 if quick else 2500
    nconc = 250 if quick else 2000
    _need(ctx.tlc("context", "Gen_CtxTree", "Gen_CtxTree.%s.cfg" % t, cases_to=seq, timeout=900), 1000, "Gen_CtxTree")
    _need(ctx.tlc("context", "Gen_CtxTree", "Gen_CtxTree_sim.%s.cfg" % t, cases_to=seq, simulate=nsim, depth=60, workers=1,
                  count_states=False, timeout=900), nsim * 9 // 10, "Gen_CtxTree_sim")
    _need(ctx.tlc("context", "Gen_CtxTree", "Gen_CtxTree_conc.%s.cfg" % t, cases_to=conc, timeout=900), 1000, "Gen_CtxTree_conc")
    _need(ctx.tlc("context", "Gen_CtxTree", "Gen_CtxTree_concsim.%s.cfg" % t, cases_to=conc, simulate=nconc, depth=60, workers=1,
                  count_states=False, timeout=900), nconc * 9 // 10, "Gen_CtxTree_concsim")

    # ---- REPLAY: the package as it is compiled today
    res = _seq_stage(ctx, "seq", seq)
    ctx.notes["retried_for_timing_seq"] = sum(1 for r in res if (r.get("info") or {}).get("attempt", 0) > 0)
    _conc_stage(ctx, "conc", conc)
    # the concurrent cases are behaviours too: sequentially they must give the same final state
    _seq_stage(ctx, "seq", conc)

    # ---- REPLAY: the hand written pre-go1.7 tree (overlay build)
    res = _seq_stage(ctx, "pre17_seq", seq)
    ctx.notes["retried_for_timing_pre17_seq"] = sum(1 for r in res if (r.get("info") or {}).get("attempt", 0) > 0)
    _conc_stage(ctx, "pre17_conc", conc)
    _seq_stage(ctx, "pre17_seq", conc)
    ctx.notes["variants"] = {"live": "go17.go + standard library context (%s)" % subprocess.run(
        ["go", "version"], stdout=subprocess.PIPE, text=True).stdout.strip(),
        "pre17": "pre_go17.go, constraint removed by overlay"}
