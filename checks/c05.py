"""C05: AMF0 values round-trip and report their exact encoded size (spec/amf0/Amf0.tla, StrictKeyed = TRUE)."""
import os


XMX = ["-Xmx3g"]  # the machine is shared: every TLC run has a heap cap


def run(ctx):
    thorough = ctx.tier == "thorough"
    ctx.rule = ("MC: TLC explores every New/Set call sequence of the builder within the bounds and every raw pair list (repeated names, "
                "empty names, ECMA counts) and checks SizeOk, RoundTrip, Consumed, Aligned, Canonical on the specification. "
                "GEN: TLC enumerates the value families of Gen_Amf0.tla (scalars incl. 11 number bit patterns; one pair x every name "
                "length x every scalar x every container kind; all pair lists up to 3 over 3 names x 3 values incl. repeated and empty "
                "names; depth-2 nestings over a capped level-1 set; long names/strings; onMetaData shapes; non-canonical booleans"
                + ("; random builder behaviours by simulation" + ("; depth 3 and 4" if thorough else "")) +
                ") and emits each with its encoding (LD), size, a following value and trailing bytes; a case is distinct if its JSON differs. "
                "LIVE (Amf0Live.tla: values as objects with identity): MC of every observation / call / observation history (thorough: two "
                "calls) on every node of three-level chains; GEN of every history marshal a / one call on x (Set of a new scalar or empty "
                "container under an existing or a new name, assignment through the pointer, replacement by the decoded copy) / marshal b "
                "with a, b at or above x, from 27 start trees built or decoded, plus random walks of 14 calls (objects detached, moved, "
                "shared, re-decoded); after every call the observed node must report Size() = the size of its CURRENT value and marshal to "
                "exactly those bytes")
    ctx.exhaustive = True
    ctx.assumptions += [
        "names and string contents are position-dependent byte patterns (they do contain 0x00 and 0x09), not all byte strings",
        "the library's strict-array convention (count, then name/value pairs) is taken as given here: layout StrictKeyed; its relation to the AMF0 specification is C06",
        "an ECMA array's count has no setter: trees with a non-zero count are checked through unmarshal / Size / re-marshal only",
        "container contents are observable through Get(name) (first pair of a name) and MarshalBinary only; order, repeated names and counts are compared through the bytes",
        "live histories: one call between two observations exhaustively (27 start trees, <= 3 pairs per container), longer ones by random walk only (<= 10 objects, 14 calls); no concurrent calls",
        "bounded trees: depth <= %d, strings/names <= %d bytes" % ((4, 65535) if thorough else (2, 300)),
    ]
    ctx.sany("amf0", "Amf0")
    # thorough: the quick bounds once more with -coverage 1 (every action of the module is taken), then one more call
    ctx.tlc("amf0", "MC_Amf0", "MC_Amf0_keyed.cfg", coverage=thorough, jopts=XMX)
    if thorough:
        ctx.tlc("amf0", "MC_Amf0", "MC_Amf0_keyed.thorough.cfg", timeout=840, jopts=XMX)
    # non-vacuity: the two defects this property had in the library, as named deviations of the specification
    ctx.tlc("amf0", "MC_Amf0", "MC_Amf0_keyed_decodeset.cfg", expect_violation="Consumed", count_states=False, jopts=XMX)
    ctx.tlc("amf0", "MC_Amf0", "MC_Amf0_keyed_countzero.cfg", expect_violation="RoundTrip", count_states=False, jopts=XMX)
    # values as live objects (Amf0Live.tla): histories of calls - marshal, change below an attached node, assign a scalar in
    # place, replace a tree by its decoded copy, marshal again - exhaustively for observation / call / observation (thorough:
    # two calls) on every node of three-level chains; non-vacuity: a container that remembers its bytes and forgets them only
    # when Set is called on itself
    ctx.sany("amf0", "Amf0Live")
    # (the one-call bounds include start trees with one container made as a Go zero value; thorough adds the two-call bounds)
    ctx.tlc("amf0", "MC_Amf0Live", "MC_Amf0Live_keyed.cfg", timeout=840, jopts=XMX)
    if thorough:
        ctx.tlc("amf0", "MC_Amf0Live", "MC_Amf0Live_keyed.thorough.cfg", timeout=840, jopts=XMX)
    ctx.tlc("amf0", "MC_Amf0Live", "MC_Amf0Live_keyed_cache.cfg", expect_violation="LiveSize", count_states=False, jopts=XMX)
    # non-vacuity of 'how the object came to be': a container whose marker byte only the New* constructors fill in
    ctx.tlc("amf0", "MC_Amf0Live", "MC_Amf0Live_keyed_origin.cfg", expect_violation="LiveDecodes", count_states=False, jopts=XMX)
    cases = os.path.join(ctx.out, "cases.ndjson")
    ctx.tlc("amf0", "Gen_Amf0", "Gen_Amf0_c05.%s.cfg" % ctx.tier, cases_to=cases, timeout=840, jopts=XMX)
    # random New/Set behaviours of the builder (Set replacing values of existing names, nesting to depth 4);
    # num is per worker
    ctx.tlc("amf0", "Gen_Amf0", "Gen_Amf0_c05.sim.cfg", simulate=700 if thorough else 40, depth=80, cases_to=cases, timeout=600, jopts=XMX)
    # histories: every marshal a / one call on x / marshal b with a, b at or above x, from every three-level start tree, built
    # or decoded (exhaustive); random walks of 14 calls with objects detached, moved, shared, re-decoded (simulation)
    ctx.tlc("amf0", "Gen_Amf0Live", "Gen_Amf0Live_c05.%s.cfg" % ctx.tier, cases_to=cases, timeout=840, jopts=XMX)
    # how the objects came to be: every start tree with one container (root, child, grandchild) made as a zero value /
    # composite literal / new(T), or decoded into a declared zero value; marshal, Set on it, marshal (exhaustive)
    ctx.tlc("amf0", "Gen_Amf0Live", "Gen_Amf0Live_c05.origin.cfg", cases_to=cases, timeout=840, jopts=XMX)
    ctx.tlc("amf0", "Gen_Amf0Live", "Gen_Amf0Live_c05.walk.cfg", simulate=200 if thorough else 25, depth=40, cases_to=cases, timeout=600, jopts=XMX)
    res = ctx.replay("amf0", cases)
    ctx.judge("amf0", cases, res)
