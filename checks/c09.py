"""C09: FLV files written are read back identically and follow the FLV layout (spec/flv/FlvFile.tla)."""
import json
import os
import re

from lib import vlib


def sweep_constants(cfg_path):
    """The integer constants of a Gen_FlvSweep cfg (the expected number of files is computed from them)."""
    txt = open(cfg_path).read()
    return {m.group(1): int(m.group(2)) for m in re.finditer(r"^\s*(\w+)\s*=\s*(\d+)\s*$", txt, re.M)}


def run(ctx):
    quick = ctx.tier == "quick"
    ctx.rule = ("MC: TLC visits every interleaving of muxer calls (WriteHeader, WriteTag*, Close), segment deliveries "
                "(Deliver(n), n in {1,4,11} or everything written) and demuxer calls (ReadHeader, (ReadTagHeader, ReadTag)*, EOF) "
                "for all 4 flag combinations and all tag lists up to 2 (thorough: 3) tags from a pool of 4 (6) tags, with a "
                "byte-level reference decoder. GEN files: every member of the families single (4 flags x 5 types x 6 sizes x 6 "
                "timestamps), empty, sizes (every size sequence of length 2..3, thorough ..4, x 6 type/timestamp/flag "
                "assignments), ts (every timestamp sequence of length 2..3), 2^24-1 bodies (2 files, thorough 44); thorough: seeded random "
                "6-tag files; a file is distinct if its JSON differs; each is replayed under 3 read segmentations for the "
                "library-written and the specification-written bytes. GEN sweep (implementation boundaries: fast paths, "
                "scratch and buffered-io blocks): one file for EVERY body size 0..12352 (thorough 0..70000), the tag under "
                "test followed by a small tag of another type (and, up to 4160 / 12352 bytes, also preceded by one), all 4 "
                "flag combinations up to 300 bytes, type/timestamp/flags rotating with the size; same replay as the files. "
                "MC sweep: every body size 0..20 in all interleavings; two scratch-buffer deviations (wrong for 4 sizes "
                "only) must be reported. Caller's memory: in the model and in every replay (files, sweep, schedules) the bodies handed to "
                "WriteTag are adjacent windows (len < cap) of ONE buffer holding all bodies of the file; expectations come from a "
                "snapshot taken before, and after every WriteTag the caller's memory must equal it (InputsUntouched). "
                "End of stream: every demux replay runs under whole / 1-byte / random segmentation, each with io.EOF as a Read "
                "of its own and with io.EOF delivered together with the last bytes (model: DeliverFinal, NoLoss; schedules "
                "contain such deliveries). GEN schedules: seeded random walks of the state machine "
                "(<= 5 tags), each step replayed against the library.")
    ctx.exhaustive = True
    ctx.assumptions += [
        "tag bodies are a position dependent byte pattern (per-tag id), not all byte strings",
        "the writer side is an io.Writer that accepts every write completely; failing or short writes/reads are C08",
        "read segmentations: whole, 1 byte per Read, seeded random sizes 1..128 KiB (files), model-chosen segments (schedules); each "
        "with end-of-stream reported by a Read of its own and by the Read that hands out the last byte; readers that fail are C08",
        "caller memory: all bodies of a file adjacent in one buffer in file order (a body's spare capacity = the later bodies; the "
        "last body has cap == len); other layouts (gaps, reverse order, bodies shared between tags) are not generated",
        "after the last tag the demuxer must return an EOF-class error (io.EOF / io.ErrUnexpectedEOF) and no tag",
        "dense size sweep up to 12352 (quick) / 70000 (thorough) bytes only: an implementation boundary above it is seen only if it "
        "coincides with a matrix value (65535, 65536, 2^24-1) or a random size of the thorough simulation (<= 200000)",
        "the sweep's files are replayed on up to 8 goroutines (closed experiments: own muxer, demuxer, writer, reader), without the "
        "second pass in the same process that the other file stage has",
        "the independent writer is the specification's FileEnc (reserved flag bits 0, data offset 9, stream id 0), expanded by harness/ld",
    ]
    sub = "flv"
    ctx.sany(sub, "FlvFile")
    _tlc = ctx.tlc

    def tlc(*a, **kw):
        kw.setdefault("jopts", ["-Xmx3g"])   # shared machine: every JVM gets a heap cap
        return _tlc(*a, **kw)

    # MC: the property on the specification itself, all interleavings within small constants
    tlc(sub, "MC_FlvFile", "MC_FlvFile.cfg" if quick else "MC_FlvFile_thorough.cfg",
            coverage=not quick, timeout=800)
    # non-vacuity: named deviations must be rejected by the layout / reference-decoder invariants ...
    tlc(sub, "MC_FlvFile", "MC_FlvFile_pts.cfg", expect_violation="RefDec", count_states=False)
    tlc(sub, "MC_FlvFile", "MC_FlvFile_tsext.cfg", expect_violation="Layout", count_states=False)
    # ... although the round trip through the model's own demuxer is blind to them (these runs must pass)
    tlc(sub, "MC_FlvFile", "MC_FlvFile_blind.cfg", count_states=False)
    tlc(sub, "MC_FlvFile", "MC_FlvFile_blind_pts.cfg", count_states=False)
    # the size sweep at model scale: every body size 0..20 (two-tag files), all interleavings ...
    tlc(sub, "MC_FlvFile", "MC_FlvFile_sweep.cfg" if quick else "MC_FlvFile_sweep_thorough.cfg", timeout=800)
    # ... non-vacuity: an implementation boundary (fast path through a 16-byte scratch whose guard forgets the 4 bytes of
    # PreviousTagSize; wrong for 4 consecutive sizes only) in the muxer / in the demuxer must be reported ...
    tlc(sub, "MC_FlvFile", "MC_FlvFile_muxscratch.cfg", expect_violation="Layout", count_states=False)
    tlc(sub, "MC_FlvFile", "MC_FlvFile_demuxscratch.cfg", expect_violation="Framing", count_states=False)
    # the caller's memory (bodies = adjacent windows of one buffer) and the way end-of-stream is signalled are the
    # caller's choice. Non-vacuity: PreviousTagSize appended in place to the caller's slice -> InputsUntouched; a read loop
    # that looks at the error before the byte count, end-of-stream delivered with the last bytes -> NoLoss ...
    tlc(sub, "MC_FlvFile", "MC_FlvFile_appendinplace.cfg", expect_violation="InputsUntouched", count_states=False)
    tlc(sub, "MC_FlvFile", "MC_FlvFile_errbeforen.cfg", expect_violation="NoLoss", count_states=False)
    if not quick:
        # ... the later tag is then written corrupted (Layout) ...
        tlc(sub, "MC_FlvFile", "MC_FlvFile_appendinplace_layout.cfg", expect_violation="Layout", count_states=False)
        # ... and both are invisible with bodies that have nothing behind them / with end-of-stream as a Read of its own
        # (these runs must pass): hence adjacent bodies and the data+EOF segmentations in every replay
        tlc(sub, "MC_FlvFile", "MC_FlvFile_blind_own.cfg", count_states=False)
        tlc(sub, "MC_FlvFile", "MC_FlvFile_blind_eof.cfg", count_states=False)
    if not quick:
        # ... and is invisible on every size outside its window (these runs must pass): hence EVERY size is generated
        tlc(sub, "MC_FlvFile", "MC_FlvFile_sweep_outside_mux.cfg", count_states=False)
        tlc(sub, "MC_FlvFile", "MC_FlvFile_sweep_outside_demux.cfg", count_states=False)

    # GEN 1: whole files (value matrix) with the specification's bytes
    files = os.path.join(ctx.out, "files.ndjson")
    g = tlc(sub, "Gen_FlvFile", "Gen_FlvFile.%s.cfg" % ctx.tier, cases_to=files, timeout=600)
    want = 2742 if quick else 10559
    if g["cases"] != want:
        raise vlib.Broken("Gen_FlvFile emitted %d files, expected %d" % (g["cases"], want))
    if not quick:
        # random 6-tag files over the unfactored product (TLC simulation, seeded): num is per worker
        s = tlc(sub, "Gen_FlvFile", "Gen_FlvFile.sim.cfg", cases_to=files, simulate=400, depth=8, timeout=600)
        if s["cases"] < 400:
            raise vlib.Broken("Gen_FlvFile simulation emitted only %d files" % s["cases"])
    res = ctx.replay("flvfile", files)
    ctx.judge("flvfile", files, res)

    # GEN 1b: the dense size sweep (INIT ranges over the body size), same replayer
    sweep = os.path.join(ctx.out, "sweep.ndjson")
    cfg = "Gen_FlvSweep.%s.cfg" % ctx.tier
    k = sweep_constants(os.path.join(vlib.SPEC, sub, cfg))
    sizes = range(k["SweepMin"], k["SweepMax"] + 1)
    want = sum((2 if n <= k["Sweep3Max"] else 1) * (4 if n <= k["DenseMax"] else 1) for n in sizes)
    if k["SweepMin"] != 0 or k["SweepMax"] < (3 * 4096 + 64 if quick else 70000):
        raise vlib.Broken("Gen_FlvSweep: the sweep must cover every body size 0..%d" % (3 * 4096 + 64 if quick else 70000))
    gs = tlc(sub, "Gen_FlvSweep", cfg, cases_to=sweep, timeout=600)
    if gs["cases"] != want:
        raise vlib.Broken("Gen_FlvSweep emitted %d files, expected %d" % (gs["cases"], want))
    seen = set()
    for line in ctx.load_cases(sweep):
        c = json.loads(line)
        seen.add(c["tags"][{"sweep-ab": 0, "sweep-bab": 1}[c["fam"]]]["n"])   # the tag under test
    if seen != set(sizes):
        raise vlib.Broken("Gen_FlvSweep: %d body sizes of %d are missing" % (len(set(sizes) - seen), len(sizes)))
    res = ctx.replay("flvsweep", sweep)
    ctx.judge("flvsweep", sweep, res)
    ctx.notes["sweep_cases"] = gs["cases"]
    ctx.notes["sweep_sizes"] = "every body size %d..%d" % (k["SweepMin"], k["SweepMax"])

    # GEN 2: behaviours of the call-level state machine (TLC simulation, seeded), replayed step by step
    sched = os.path.join(ctx.out, "sched.ndjson")
    n = 60 if quick else 1500
    s = tlc(sub, "Gen_FlvSched", "Gen_FlvSched.%s.cfg" % ctx.tier, cases_to=sched, simulate=n, depth=600, timeout=600)
    if s["cases"] < n:
        raise vlib.Broken("Gen_FlvSched emitted only %d complete behaviours" % s["cases"])
    res = ctx.replay("flvsched", sched)
    ctx.judge("flvsched", sched, res)
    ctx.notes["file_cases"] = g["cases"]
    ctx.notes["schedules"] = s["cases"]
