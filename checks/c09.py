"""C09: FLV files written are read back identically and follow the FLV layout (spec/flv/FlvFile.tla)."""
import os

from lib import vlib


def run(ctx):
    quick = ctx.tier == "quick"
    ctx.rule = ("MC: TLC visits every interleaving of muxer calls (WriteHeader, WriteTag*, Close), segment deliveries "
                "(Deliver(n), n in {1,4,11} or everything written) and demuxer calls (ReadHeader, (ReadTagHeader, ReadTag)*, EOF) "
                "for all 4 flag combinations and all tag lists up to 2 (thorough: 3) tags from a pool of 4 (6) tags, with a "
                "byte-level reference decoder. GEN files: every member of the families single (4 flags x 5 types x 6 sizes x 6 "
                "timestamps), empty, sizes (every size sequence of length 2..3, thorough ..4, x 6 type/timestamp/flag "
                "assignments), ts (every timestamp sequence of length 2..3), 2^24-1 bodies (2 files, thorough 44); thorough: seeded random "
                "6-tag files; a file is distinct if its JSON differs; each is replayed under 3 read segmentations for the "
                "library-written and the specification-written bytes. GEN schedules: seeded random walks of the state machine "
                "(<= 5 tags), each step replayed against the library.")
    ctx.exhaustive = True
    ctx.assumptions += [
        "tag bodies are a position dependent byte pattern (per-tag id), not all byte strings",
        "the writer side is an io.Writer that accepts every write completely; failing or short writes/reads are C08",
        "read segmentations: whole, 1 byte per Read, seeded random sizes 1..128 KiB (files), model-chosen segments (schedules)",
        "after the last tag the demuxer must return an EOF-class error (io.EOF / io.ErrUnexpectedEOF) and no tag",
        "the independent writer is the specification's FileEnc (reserved flag bits 0, data offset 9, stream id 0), expanded by harness/ld",
    ]
    sub = "flv"
    ctx.sany(sub, "FlvFile")

    # MC: the property on the specification itself, all interleavings within small constants
    ctx.tlc(sub, "MC_FlvFile", "MC_FlvFile.cfg" if quick else "MC_FlvFile_thorough.cfg",
            coverage=not quick, timeout=800)
    # non-vacuity: named deviations must be rejected by the layout / reference-decoder invariants ...
    ctx.tlc(sub, "MC_FlvFile", "MC_FlvFile_pts.cfg", expect_violation="RefDec", count_states=False)
    ctx.tlc(sub, "MC_FlvFile", "MC_FlvFile_tsext.cfg", expect_violation="Layout", count_states=False)
    # ... although the round trip through the model's own demuxer is blind to them (these runs must pass)
    ctx.tlc(sub, "MC_FlvFile", "MC_FlvFile_blind.cfg", count_states=False)
    ctx.tlc(sub, "MC_FlvFile", "MC_FlvFile_blind_pts.cfg", count_states=False)

    # GEN 1: whole files (value matrix) with the specification's bytes
    files = os.path.join(ctx.out, "files.ndjson")
    g = ctx.tlc(sub, "Gen_FlvFile", "Gen_FlvFile.%s.cfg" % ctx.tier, cases_to=files, timeout=600)
    want = 2742 if quick else 10559
    if g["cases"] != want:
        raise vlib.Broken("Gen_FlvFile emitted %d files, expected %d" % (g["cases"], want))
    if not quick:
        # random 6-tag files over the unfactored product (TLC simulation, seeded): num is per worker
        s = ctx.tlc(sub, "Gen_FlvFile", "Gen_FlvFile.sim.cfg", cases_to=files, simulate=400, depth=8, timeout=600)
        if s["cases"] < 400:
            raise vlib.Broken("Gen_FlvFile simulation emitted only %d files" % s["cases"])
    res = ctx.replay("flvfile", files)
    ctx.judge("flvfile", files, res)

    # GEN 2: behaviours of the call-level state machine (TLC simulation, seeded), replayed step by step
    sched = os.path.join(ctx.out, "sched.ndjson")
    n = 60 if quick else 1500
    s = ctx.tlc(sub, "Gen_FlvSched", "Gen_FlvSched.%s.cfg" % ctx.tier, cases_to=sched, simulate=n, depth=600, timeout=600)
    if s["cases"] < n:
        raise vlib.Broken("Gen_FlvSched emitted only %d complete behaviours" % s["cases"])
    res = ctx.replay("flvsched", sched)
    ctx.judge("flvsched", sched, res)
    ctx.notes["file_cases"] = g["cases"]
    ctx.notes["schedules"] = s["cases"]
