"""Shared machinery of the vcheck driver (python3, stdlib only).

Pipeline per property (DESIGN.md section 1):
  MC    tlc on MC_*.cfg: the property's invariants hold on the specification
  GEN   tlc on Gen_*.cfg: behaviours / cases emitted as JSON (PrintT(<<"CASE", ToJson(..)>>))
  REPLAY the Go replayer steps the real library (built from /repo's working tree,
        tag verif) through every case and compares with the specification
  TRACE recorded ndjson traces validated by tlc on Trace_*.cfg
Verdicts: VIOLATION only from real-code behaviour reproduced twice; a broken spec,
tool failure, timeout or dead driver is exit 2.
"""
import json
import os
import re
import shutil
import subprocess
import sys
import time

VERIF = os.path.dirname(os.path.dirname(os.path.abspath(__file__)))
REPO = os.environ.get("VERIF_REPO", "/repo")
SPEC = os.path.join(VERIF, "spec")
HARNESS = os.path.join(VERIF, "harness")
OUT = os.path.join(VERIF, "out")
EVID = os.path.join(VERIF, "evidence")
FINDINGS = os.path.join(VERIF, "known_findings.json")

TLA_CP = "/opt/veriftools/tla/tla2tools.jar:/opt/veriftools/tla/CommunityModules-deps.jar"

GOENV = dict(GOFLAGS="-mod=mod", GOPROXY="off", GOSUMDB="off", GOTOOLCHAIN="local",
             CGO_ENABLED="1")


class Broken(Exception):
    """The machinery (not the library) failed: exit 2."""


class LibraryCrash(Exception):
    """The replayer process was killed by a panic raised inside the library on a goroutine the
    replayer cannot guard (server handlers, reader goroutines) - twice in a row. That is behaviour
    of the real code, hence a verdict (exit 1), not a failure of the machinery."""

    def __init__(self, stage, what):
        Exception.__init__(self, what)
        self.stage = stage
        self.what = what


def library_panic(stderr):
    """Returns a description if stderr shows a Go panic whose innermost non-runtime frame is in the library."""
    if not stderr or "panic:" not in stderr and "fatal error:" not in stderr:
        return None
    lines = stderr.splitlines()
    start = next((i for i, l in enumerate(lines) if l.startswith("panic:") or l.startswith("fatal error:")), None)
    if start is None:
        return None
    for l in lines[start + 1:]:
        m = re.match(r"^([\w./\-]+)\.[\w().*\[\]]+\(", l.strip())
        if not m:
            continue
        pkg = m.group(1)
        if pkg.startswith("github.com/ossrs/go-oryx-lib"):
            return lines[start].strip() + " in " + l.strip()[:160]
        if pkg == "main" or pkg.startswith("main.") or pkg.startswith("verifharness"):
            return None   # the harness itself (or the standard library called directly by it) panicked
        # standard library / runtime frames: keep looking for who called them
    return None


def log(*a):
    print("[vcheck]", *a, file=sys.stderr, flush=True)


class Ctx:
    def __init__(self, prop, tier, seed, level="model_checking"):
        self.prop = prop
        self.tier = tier
        self.seed = seed
        self.level = level
        self.t0 = time.time()
        # a run against a scratch worktree gets its own scratch directory, so that it can run
        # concurrently with a run against /repo itself
        self.out = os.path.join(OUT, prop if REPO == "/repo" else "%s@%s" % (prop, os.path.basename(REPO.rstrip("/"))))
        shutil.rmtree(self.out, ignore_errors=True)
        os.makedirs(self.out, exist_ok=True)
        os.makedirs(EVID, exist_ok=True)
        self.states = 0
        self.transitions = 0
        self.tlc_runs = []
        self.evaluations = 0
        self.nontrivial = 0
        self.traces_validated = 0
        self.samples = []
        self.fail_results = []      # (stage, case, result)
        self.assumptions = []
        self.notes = {}
        self.rule = ""
        self.exhaustive = False
        self.bins = {}
        self.replay_n = 0
        self.workers = int(os.environ.get("VERIF_WORKERS", "8"))

    # ------------------------------------------------------------------ TLC
    def _stage_dir(self, name, subsystem):
        d = os.path.join(self.out, name)
        shutil.rmtree(d, ignore_errors=True)
        os.makedirs(d)
        for src in (os.path.join(SPEC, "common"), os.path.join(SPEC, subsystem)):
            for f in os.listdir(src):
                if f.endswith(".tla") or f.endswith(".cfg"):
                    shutil.copy(os.path.join(src, f), d)
        return d

    # TLC's value classes are not fully thread-safe: with several workers a record can, rarely, fail a field lookup
    # for a field it prints itself ("Attempted to select nonexistent field "k" from the record [.. k |-> ..]").
    # That is a tool failure, not a property of the specification: the run is repeated once with one worker.
    TLC_RACE = re.compile(r'Attempted to select nonexistent field "(\w+)" from the record\s*\[[^\]]*\b\1 \|->', re.S)

    def tlc(self, *a, **kw):
        cases_to = kw.get("cases_to")
        size0 = os.path.getsize(cases_to) if cases_to and os.path.exists(cases_to) else 0
        n_runs, st, tr = len(self.tlc_runs), self.states, self.transitions
        try:
            return self._tlc_once(*a, **kw)
        except Broken as e:
            logp = getattr(e, "tlc_log", None)
            txt = ""
            try:
                txt = open(logp).read() if logp else ""
            except Exception:
                pass
            if not self.TLC_RACE.search(txt):
                raise
            log("TLC worker race in %s (a record failing a lookup of a field it has): repeating the run with one worker" % logp)
            if cases_to and os.path.exists(cases_to):
                with open(cases_to, "r+") as f:
                    f.truncate(size0)
            del self.tlc_runs[n_runs:]
            self.states, self.transitions = st, tr
            kw["workers"] = 1
            return self._tlc_once(*a, **kw)

    def _tlc_once(self, subsystem, module, cfg, name=None, workers=None, timeout=600,
                  simulate=None, depth=None, cases_to=None, expect_violation=None,
                  coverage=False, files=None, count_states=True, seed=None, dfs=False, allow_fail=False, jopts=None):
        """Run TLC. Returns dict(generated, distinct, depth, cases, log, violated).

        cases_to: path (appended) receiving one JSON text per emitted CASE line.
        expect_violation: name of an invariant that MUST be reported violated
          (non-vacuity runs on a named deviation); anything else is Broken.
        files: extra files {name: content} dropped into the scratch dir (traces).
        """
        name = name or (module + "." + os.path.splitext(os.path.basename(cfg))[0])
        d = self._stage_dir("tlc_" + name, subsystem)
        for fn, content in (files or {}).items():
            if isinstance(content, str) and os.path.exists(content) and not content.startswith("{"):
                shutil.copy(content, os.path.join(d, fn))
            else:
                with open(os.path.join(d, fn), "w") as f:
                    f.write(content)
        workers = workers or self.workers
        jtmp = os.path.join(d, "jtmp")      # TLC leaves a tlc-* directory per run in java.io.tmpdir: keep them out of /tmp
        os.makedirs(jtmp, exist_ok=True)
        jopts = ["-Xss512m", "-XX:+UseParallelGC", "-Djava.io.tmpdir=" + jtmp] + list(jopts or [])
        if dfs:
            jopts.append("-Dtlc2.tool.queue.IStateQueue=StateDeque")
        cmd = ["timeout", str(timeout), "java"] + jopts + ["-cp", TLA_CP, "tlc2.TLC",
               "-workers", str(workers), "-metadir",
               os.path.join(d, "md"), "-config", cfg, "-noGenerateSpecTE"]
        if coverage:
            cmd += ["-coverage", "1"]
        if simulate:
            cmd += ["-simulate", "num=%d" % simulate, "-depth", str(depth or 20),
                    "-seed", str(seed if seed is not None else self.seed)]
        cmd += [module + ".tla"]
        env = dict(os.environ)
        t0 = time.time()
        logp = os.path.join(d, "tlc.log")
        ncases = 0
        gen = dist = dep = None
        violated = None
        err_lines = []
        cov_actions = {}
        casef = open(cases_to, "a") if cases_to else None
        prefix = '<<"CASE", '
        with open(logp, "w") as lf:
            p = subprocess.Popen(cmd, cwd=d, env=env, stdout=subprocess.PIPE,
                                 stderr=subprocess.STDOUT, text=True, bufsize=1 << 20)
            for line in p.stdout:
                if line.startswith(prefix):
                    if casef:
                        try:
                            casef.write(json.loads(line.rstrip()[len(prefix):-2]) + "\n")
                        except Exception as e:  # pragma: no cover
                            raise Broken("unparsable CASE line from TLC: %r (%s)" % (line[:200], e))
                    ncases += 1
                    continue
                lf.write(line)
                m = re.search(r"(\d+) states generated, (\d+) distinct states found", line)
                if m:
                    gen, dist = int(m.group(1)), int(m.group(2))
                m = re.search(r"depth of the complete state graph search is (\d+)", line)
                if m:
                    dep = int(m.group(1))
                m = re.search(r"Invariant (\S+) is violated", line)
                if m:
                    violated = m.group(1)
                m = re.search(r"Action property (\S+) is violated|Temporal properties were violated", line)
                if m:
                    violated = m.group(1) or "temporal"
                if line.startswith("Error:") or "Exception" in line:
                    err_lines.append(line.rstrip())
                if coverage:
                    # "<Action line 85, col 3 to line 106, col 19 of module M>: distinct:generated"
                    m = re.match(r"<(\w+) line \d+, col \d+ to line \d+, col \d+ of module (\w+)>: (\d+):(\d+)", line)
                    if m:
                        cov_actions[m.group(2) + "!" + m.group(1)] = max(cov_actions.get(m.group(2) + "!" + m.group(1), 0), int(m.group(4)))
            rc = p.wait()
        if casef:
            casef.close()
        shutil.rmtree(os.path.join(d, "md"), ignore_errors=True)
        shutil.rmtree(os.path.join(d, "states"), ignore_errors=True)
        shutil.rmtree(jtmp, ignore_errors=True)
        info = dict(name=name, generated=gen or 0, distinct=dist or 0, depth=dep, cases=ncases,
                    rc=rc, violated=violated, wall_s=round(time.time() - t0, 2), log=logp,
                    simulate=simulate)
        run_rec = {k: info[k] for k in ("name", "generated", "distinct", "depth", "cases", "wall_s", "simulate")}
        if coverage and cov_actions:
            # vacuity guard: actions never taken in this configuration are recorded in the evidence
            run_rec["actions_taken"] = {k: v for k, v in sorted(cov_actions.items())}
            run_rec["actions_never_taken"] = sorted(k for k, v in cov_actions.items() if v == 0)
            info["actions_never_taken"] = run_rec["actions_never_taken"]
        self.tlc_runs.append(run_rec)
        if rc == 124:
            raise Broken("TLC timed out after %ss on %s (log %s)" % (timeout, name, logp))
        if expect_violation:
            if violated != expect_violation:
                e = Broken("non-vacuity run %s: expected %s to be violated, got %r (log %s)"
                           % (name, expect_violation, violated, logp))
                e.tlc_log = logp
                raise e
            return info
        if allow_fail and (violated or rc != 0 or err_lines):
            # trace validation: a rejected trace is information for the caller, not a broken tool
            info["errors"] = err_lines
            try:
                info["tail"] = "".join(open(logp).readlines()[-40:])
            except Exception:
                info["tail"] = ""
            info["rejected"] = True
            return info
        if violated or (rc != 0) or err_lines:
            tail = ""
            try:
                tail = "".join(open(logp).readlines()[-25:])
            except Exception:
                pass
            e = Broken("TLC failed on %s: rc=%s violated=%s errors=%s\n%s" % (name, rc, violated, err_lines[:3], tail))
            e.tlc_log = logp
            raise e
        if count_states and not simulate:
            self.states += info["distinct"]
            self.transitions += info["generated"]
        log("tlc %-40s generated=%s distinct=%s cases=%s %.1fs" % (name, gen, dist, ncases, info["wall_s"]))
        return info

    def apalache(self, subsystem, module, cfg, init, inv, length, expect_error=False, timeout=300):
        """Symbolic check with Apalache (used for inductive invariants: Init => Inv at length 0,
        IndInit /\\ Next => Inv' at length 1). Returns True if the outcome is the expected one."""
        d = self._stage_dir("apalache_%s_%s_%d%s" % (module, init, length, "_dev" if expect_error else ""), subsystem)
        cmd = ["timeout", str(timeout), "apalache-mc", "check", "--config=" + cfg, "--init=" + init, "--inv=" + inv,
               "--length=%d" % length, "--out-dir=" + os.path.join(d, "out"), module + ".tla"]
        t0 = time.time()
        r = subprocess.run(cmd, cwd=d, stdout=subprocess.PIPE, stderr=subprocess.STDOUT, text=True)
        open(os.path.join(d, "apalache.log"), "w").write(r.stdout)
        shutil.rmtree(os.path.join(d, "out"), ignore_errors=True)
        noerr = "The outcome is: NoError" in r.stdout
        founderr = "The outcome is: Error" in r.stdout
        if not noerr and not founderr:
            raise Broken("Apalache did not reach a verdict on %s (%s):\n%s" % (module, cfg, r.stdout[-1500:]))
        ok = founderr if expect_error else noerr
        self.notes.setdefault("apalache_runs", []).append(
            {"module": module, "cfg": cfg, "init": init, "inv": inv, "length": length,
             "outcome": "Error" if founderr else "NoError", "expected": "Error" if expect_error else "NoError",
             "wall_s": round(time.time() - t0, 1)})
        log("apalache %-30s init=%s inv=%s length=%d -> %s %.1fs" % (module, init, inv, length, "Error" if founderr else "NoError", time.time() - t0))
        if not ok:
            raise Broken("Apalache: %s --init=%s --inv=%s --length=%d gave %s, expected %s"
                         % (module, init, inv, length, "Error" if founderr else "NoError", "Error" if expect_error else "NoError"))
        return True

    def tlapm(self, subsystem, module, timeout=600):
        """Machine-checks the TLAPS proofs of a module; returns (obligations, proved)."""
        d = self._stage_dir("tlapm_" + module, subsystem)
        t0 = time.time()
        r = subprocess.run(["timeout", str(timeout), "tlapm", "--threads", str(self.workers), "--cleanfp", module + ".tla"],
                           cwd=d, stdout=subprocess.PIPE, stderr=subprocess.STDOUT, text=True)
        open(os.path.join(d, "tlapm.log"), "w").write(r.stdout)
        shutil.rmtree(os.path.join(d, ".tlacache"), ignore_errors=True)
        m = re.search(r"All (\d+) obligations? proved", r.stdout)
        if not m:
            m2 = re.search(r"(\d+)/(\d+) obligations? failed", r.stdout)
            raise Broken("tlapm did not prove %s: %s\n%s" % (module, m2.group(0) if m2 else "no summary", r.stdout[-1500:]))
        n = int(m.group(1))
        self.notes.setdefault("tlaps_proofs", []).append({"module": module, "obligations": n, "discharged": n,
                                                          "wall_s": round(time.time() - t0, 1)})
        log("tlapm %-30s all %d obligations proved %.1fs" % (module, n, time.time() - t0))
        return n, n

    def sany(self, subsystem, module):
        d = self._stage_dir("sany_" + module, subsystem)
        r = subprocess.run(["timeout", "120", "tla-sany", module + ".tla"], cwd=d,
                           stdout=subprocess.PIPE, stderr=subprocess.STDOUT, text=True)
        if r.returncode != 0 or "error" in r.stdout.lower().replace("0 error", ""):
            if r.returncode != 0:
                raise Broken("SANY rejects %s:\n%s" % (module, r.stdout[-2000:]))

    # ------------------------------------------------------------------- Go
    def go_build(self, race=False):
        key = "race" if race else "plain"
        if key in self.bins:
            return self.bins[key]
        bindir = os.path.join(OUT, "bin")
        os.makedirs(bindir, exist_ok=True)
        # one binary per property so parallel checks never race on the file
        binp = os.path.join(bindir, "replay-%s-%s" % (os.path.basename(self.out), key))
        env = dict(os.environ)
        env.update(GOENV)
        cmd = ["go", "build", "-tags", "verif"]
        if REPO != "/repo":
            # testing against a scratch worktree: same module, replace directive redirected
            alt = os.path.join(self.out, "alt.mod")
            with open(os.path.join(HARNESS, "go.mod")) as f:
                mod = f.read().replace("=> /repo", "=> " + REPO)
            with open(alt, "w") as f:
                f.write(mod)
            open(os.path.join(self.out, "alt.sum"), "w").close()
            cmd.append("-modfile=" + alt)
        if race:
            cmd.append("-race")
        cmd += ["-o", binp, "./cmd/" + self.prop.lower().replace("_replay", "")]
        t0 = time.time()
        r = subprocess.run(cmd, cwd=HARNESS, env=env, stdout=subprocess.PIPE,
                           stderr=subprocess.STDOUT, text=True)
        if r.returncode != 0:
            raise Broken("go build of the harness against %s failed:\n%s" % (REPO, r.stdout[-4000:]))
        log("go build (%s) %.1fs" % (key, time.time() - t0))
        self.bins[key] = binp
        return binp

    AGAIN = 4000   # per-case stages: so many passing cases are replayed once more at the end of the same process

    def replay(self, name, cases_path, race=False, timeout=1800, extra=None, dir=None, env_extra=None, again=None):
        """Run the Go replayer `name` over cases; returns list of result dicts. A case that passed in its turn but fails
        when replayed again after all the others (state kept by the library across calls) comes back failing, marked
        "history": judge reproduces it by running the whole stage again."""
        binp = self.go_build(race)
        lock = getattr(self, "_replay_lock", None)
        if lock:
            with lock:
                self.replay_n += 1
                n = self.replay_n
        else:
            self.replay_n += 1
            n = self.replay_n
        outp = os.path.join(self.out, "results_%s_%d.ndjson" % (name, n))
        again = self.AGAIN if again is None else again
        cmd = ["timeout", str(timeout), binp, "-again", str(again), "-prop", name, "-cases", cases_path, "-out", outp,
               "-seed", str(self.seed), "-tier", self.tier]
        if dir:
            os.makedirs(dir, exist_ok=True)
            cmd += ["-dir", dir]
        for k, v in (extra or {}).items():
            cmd.append("%s=%s" % (k, v))
        env = dict(os.environ)
        if env_extra:
            env.update(env_extra)
        t0 = time.time()
        r = subprocess.run(cmd, env=env, stdout=subprocess.PIPE, stderr=subprocess.PIPE, text=True)
        self.last_stderr = r.stderr
        if r.returncode != 0:
            lp = library_panic(r.stderr)
            if lp:
                r2 = subprocess.run(cmd, env=env, stdout=subprocess.PIPE, stderr=subprocess.PIPE, text=True)
                lp2 = library_panic(r2.stderr) if r2.returncode != 0 else None
                if lp2:
                    raise LibraryCrash(name, "the library panicked on a goroutine outside the replayer's guard and killed the process (twice): %s\n%s"
                                       % (lp2, r2.stderr[-1500:]))
            raise Broken("replayer %s died rc=%s: %s" % (name, r.returncode, (r.stderr or r.stdout)[-3000:]))
        res = [json.loads(l) for l in open(outp) if l.strip()]
        nagain = 0
        if os.path.exists(outp + ".again"):
            for l in open(outp + ".again"):
                x = json.loads(l)
                if x["i"] < 0:
                    nagain = (x.get("info") or {}).get("replayed_again", 0)
                elif res[x["i"]]["ok"]:
                    x["history"] = True
                    res[x["i"]] = x
            self.notes["replayed_again_in_the_same_process"] = self.notes.get("replayed_again_in_the_same_process", 0) + nagain
        log("replay %-20s cases=%d fails=%d again=%d %.1fs" % (name, len(res), sum(1 for x in res if not x["ok"]), nagain, time.time() - t0))
        return res

    def replay_sharded(self, name, cases_path, shards=8, **kw):
        """replay() over contiguous shards of the case file in parallel processes (stages whose cases are long and
        independent). Results come back with their global index; a history-dependent failure remembers its shard."""
        import threading
        from concurrent.futures import ThreadPoolExecutor
        lines = self.load_cases(cases_path)
        shards = max(1, min(shards, len(lines)))
        if shards == 1:
            return self.replay(name, cases_path, **kw)
        size = (len(lines) + shards - 1) // shards
        parts = []
        for k in range(shards):
            chunk = lines[k * size:(k + 1) * size]
            if not chunk:
                continue
            sp = "%s.shard%d" % (cases_path, k)
            with open(sp, "w") as f:
                f.write("\n".join(chunk) + "\n")
            parts.append((k * size, sp))
        if not hasattr(self, "_replay_lock"):
            self._replay_lock = threading.Lock()
        self.go_build(kw.get("race", False))   # once, before the threads

        def one(part):
            return part, self.replay(name, part[1], **kw)
        out = [None] * len(lines)
        with ThreadPoolExecutor(max_workers=len(parts)) as pool:
            for (off, sp), res in pool.map(one, parts):
                for r in res:
                    if r.get("history"):
                        r["shard_cases"], r["shard_i"] = sp, r["i"]
                    r["i"] += off
                    out[r["i"]] = r
        if any(x is None for x in out):
            raise Broken("sharded replay %s lost results" % name)
        return out

    @staticmethod
    def _same_class_fails(results, r):
        """a history-dependent failure whose victim varies from run to run (shared state + scheduling): does the re-run
        show a failure of the same kind on some case?"""
        def core(x):
            w = x.get("what") or ""
            for pre in ("only after the history of the other cases in the same process (it passed when it was run first): ",
                        "only after the history of the earlier cases in the same process (it passes when run alone): "):
                w = w.replace(pre, "")
            return (x.get("deviation") or "") + "|" + re.sub(r"\d+", "N", w)[:60]
        k = core(r)
        return any((not x["ok"]) and core(x) == k for x in results)

    def load_cases(self, path):
        return [l.rstrip("\n") for l in open(path) if l.strip()]

    def judge(self, name, cases_path, results, race=False, extra=None, reproduce=True, max_repro=6):
        """Account results of a replay stage; reproduce failures in isolation."""
        cases = self.load_cases(cases_path)
        if len(results) != len(cases):
            raise Broken("replayer %s returned %d results for %d cases" % (name, len(results), len(cases)))
        self.evaluations += len(results)
        self.traces_validated += len(results)
        seen = set()
        for c, r in zip(cases, results):
            if r.get("nontrivial", True):
                h = hash(c)
                if h not in seen:
                    seen.add(h)
        self.nontrivial += len(seen)
        if len(self.samples) < 4 and cases:
            for c in cases[:1] + cases[len(cases) // 2: len(cases) // 2 + 1]:
                try:
                    self.samples.append({"stage": name, "case": json.loads(c)})
                except Exception:
                    self.samples.append({"stage": name, "case": c[:500]})
        fails = [(json.loads(cases[r["i"]]) if cases[r["i"]].startswith(("{", "[")) else cases[r["i"]], r) for r in results if not r["ok"]]
        # reproduce (a sample of) the failures in isolation, per deviation class
        per_class = {}
        for case, r in fails:
            k = r.get("deviation") or "?" + (r.get("what") or "")[:60]
            per_class.setdefault(k, []).append((case, r))
        whole = None
        for k, lst in per_class.items():
            nrep = max_repro if reproduce else 0
            if k.startswith("?stall:"):
                nrep = min(nrep, 1)   # each reproduction of a stall costs the watchdog's full time
            for case, r in lst[:nrep]:
                if r.get("history") and r.get("shard_cases"):
                    again_res = self.replay(name, r["shard_cases"], race=race, extra=extra)
                    r["cases_path"] = r["shard_cases"]
                    if again_res[r["shard_i"]]["ok"]:
                        raise Broken("history-dependent failure of %s case %d not reproducible by running its shard again: %s"
                                     % (name, r["i"], json.dumps(r)[:500]))
                    r["i"] = r["shard_i"]     # the replay file refers to the shard
                    continue
                if r.get("history"):
                    # the failure needs the history of the whole stage: reproduce it by running the whole stage again
                    if whole is None:
                        whole = self.replay(name, cases_path, race=race, extra=extra)
                    r["cases_path"] = cases_path
                    if whole[r["i"]]["ok"] and not self._same_class_fails(whole, r):
                        raise Broken("history-dependent failure of %s case %d not reproducible by running the stage again: %s"
                                     % (name, r["i"], json.dumps(r)[:500]))
                    continue
                single = os.path.join(self.out, "single_%s.ndjson" % name)
                with open(single, "w") as f:
                    f.write(json.dumps(case) + "\n")
                rr = self.replay(name, single, race=race, extra=extra)
                if rr[0]["ok"]:
                    # not reproducible alone: the failure may need the history of the earlier cases of the stage (state the
                    # library keeps across calls or ACROSS INSTANCES); it is a verdict if the same case fails again when the
                    # whole stage is run again, otherwise the machinery is broken
                    if whole is None:
                        whole = self.replay(name, cases_path, race=race, extra=extra)
                    if whole[r["i"]]["ok"] and not self._same_class_fails(whole, r):
                        raise Broken("failure of %s case not reproducible in isolation nor by running the stage again: %s"
                                     % (name, json.dumps(r)[:500]))
                    r["history"], r["cases_path"] = True, cases_path
                    r["what"] = "only after the history of the earlier cases in the same process (it passes when run alone): " + (r.get("what") or "")
            for case, r in lst:
                self.fail_results.append((name, case, r))
        return fails

    # -------------------------------------------------------------- verdict
    def finish(self):
        findings = []
        if os.path.exists(FINDINGS):
            findings = json.load(open(FINDINGS)).get("findings", [])
        known = {f["key"]: f for f in findings if f.get("status") == "known" and f.get("property") == self.prop}
        viol = []
        known_hit = {}
        for stage, case, r in self.fail_results:
            k = r.get("deviation")
            if k and k in known:
                known_hit.setdefault(k, []).append((stage, case, r))
            else:
                viol.append((stage, case, r))
        for k, lst in sorted(known_hit.items()):
            print("KNOWN-FINDING: property=%s %s: %s (%d cases this run)" % (self.prop, k, known[k]["what"], len(lst)))
        nviol = 0
        shown = set()
        for stage, case, r in viol:
            cls = (stage, r.get("deviation") or (r.get("what") or "")[:80])
            nviol += 1
            if cls in shown or len(shown) >= 10:
                continue
            shown.add(cls)
            rp = os.path.join(self.out, "replay-%d.json" % (len(shown) - 1))
            with open(rp, "w") as f:
                json.dump({"property": self.prop, "stage": stage, "seed": self.seed, "tier": self.tier,
                           "case": case, "result": r}, f, indent=1)
            print("VIOLATION property=%s replay=%s" % (self.prop, rp))
            print("  stage=%s what=%s" % (stage, (r.get("what") or "")[:300]))
        self.write_evidence(nviol, sorted(known_hit))
        log("%s %s: evaluations=%d states=%d violations=%d known=%s %.1fs" % (
            self.prop, self.tier, self.evaluations, self.states, nviol, sorted(known_hit), time.time() - self.t0))
        return 1 if nviol else 0

    def write_evidence(self, nviol, known_hit=()):
        cov = {
            "states": self.states,
            "transitions": self.transitions,
            "traces_validated_against_impl": self.traces_validated,
            "evaluations": self.evaluations,
            "distinct_nontrivial": self.nontrivial,
            "rule": self.rule,
            "samples": self.samples[:4] or [{"note": "no cases"}],
            "exhaustive": self.exhaustive,
            "tlc_runs": self.tlc_runs,
            "known_findings_hit": list(known_hit),
        }
        cov.update(self.notes)
        ev = {
            "property_id": self.prop,
            "tier": self.tier,
            "seed": self.seed,
            "level": self.level,
            "coverage": cov,
            "assumptions": self.assumptions,
            "wall_s": round(time.time() - self.t0, 2),
            "violations": nviol,
        }
        # /verif/evidence describes /repo only: a run against a scratch worktree (VERIF_REPO) keeps its evidence with its output
        dest = os.path.join(EVID, self.prop + ".json") if os.path.realpath(REPO) == "/repo" else os.path.join(self.out, "evidence.json")
        with open(dest, "w") as f:
            json.dump(ev, f, indent=1)


def run_single_replay(prop, path, checks):
    """vcheck Cxx --replay file: re-run one recorded failing case."""
    rec = json.load(open(path))
    ctx = Ctx(prop + "_replay", rec.get("tier", "quick"), rec.get("seed", 0))
    ctx.prop = prop
    if rec.get("result", {}).get("history"):
        # the failure needs the history of its stage: replay the stage's case file, then look at that case's second run
        mod = checks[prop]
        race = getattr(mod, "RACE", {}).get(rec["stage"], False)
        res = ctx.replay(rec["stage"], rec["result"]["cases_path"], race=race)
        r = res[rec["result"]["i"]]
        print(json.dumps(r, indent=1)[:3000])
        if not r["ok"]:
            print("VIOLATION property=%s replay=%s" % (prop, path))
            return 1
        return 0
    single = os.path.join(ctx.out, "single.ndjson")
    with open(single, "w") as f:
        f.write(json.dumps(rec["case"]) + "\n")
    mod = checks[prop]
    race = getattr(mod, "RACE", {}).get(rec["stage"], False)
    res = ctx.replay(rec["stage"], single, race=race)
    print(json.dumps(res[0], indent=1))
    if not res[0]["ok"]:
        print("VIOLATION property=%s replay=%s" % (prop, path))
        return 1
    return 0
