#!/bin/sh
# Offline setup: warm the Go build cache for the harness (plain and -race) against /repo.
set -e
cd "$(dirname "$0")/../harness"
export GOFLAGS=-mod=mod GOPROXY=off GOSUMDB=off GOTOOLCHAIN=local
mkdir -p ../out/bin
for d in cmd/*/; do
  go build -tags verif -o ../out/bin/setup-$(basename $d) ./$d
done
go build -race -tags verif -o ../out/bin/setup-race ./rp
java -cp /opt/veriftools/tla/tla2tools.jar tlc2.TLC -h >/dev/null 2>&1 || true
echo setup ok
