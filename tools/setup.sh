#!/bin/sh
# Offline setup: warm the Go build cache for the harness (plain and -race) against /repo.
# The checks rebuild what they need themselves; a failure here is only a cold cache.
cd "$(dirname "$0")/../harness" || exit 1
export GOFLAGS=-mod=mod GOPROXY=off GOSUMDB=off GOTOOLCHAIN=local
mkdir -p ../out/bin
for d in cmd/*/; do
  go build -tags verif -o ../out/bin/setup-$(basename $d) ./$d || echo "warning: $d does not build yet"
done
go build -race -tags verif -o ../out/bin/setup-race ./rp || true
rm -f ../out/bin/setup-*
java -cp /opt/veriftools/tla/tla2tools.jar tlc2.TLC -h >/dev/null 2>&1 || true
echo setup ok
