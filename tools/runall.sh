#!/bin/bash
# runall.sh <tier> [ids...]: runs every check of the tier one after the other, one summary line each
cd "$(dirname "$0")/.."
export GOFLAGS=-mod=mod GOPROXY=off GOSUMDB=off GOTOOLCHAIN=local
tier=${1:-quick}; shift
ids=${@:-C01 C02 C03 C04 C05 C06 C07 C08 C09 C10 C11 C12 C13 C14 C15 C16 C17 C18 C19 C20 X01 X02 X03 X04 X05}
for id in $ids; do
  t0=$(date +%s)
  out=$(./vcheck $id --tier $tier 2>&1); rc=$?
  echo "$id $tier rc=$rc $(( $(date +%s) - t0 ))s $(echo "$out" | tail -1 | cut -c1-160)"
  echo "$out" | grep -E "VIOLATION|BROKEN|stage=" | head -5 | cut -c1-300
done
