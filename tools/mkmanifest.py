#!/usr/bin/env python3
"""Regenerates /verif/MANIFEST.json from the table below (single source of truth)."""
import json
import os
import subprocess

VERIF = os.path.dirname(os.path.dirname(os.path.abspath(__file__)))
ALL = ["C%02d" % i for i in range(1, 21)]

# id -> (level, technique, text, note, design_ref)
CHECKS = {
    "C01": ("model_checking",
            "TLA+ specs RtmpSession.tla (message-level session, both directions, handshake) and RtmpChunk.tla (chunk-level refinement) model-checked by TLC; every TLC behaviour replayed into two real rtmp.Protocol endpoints with state comparison after each step",
            "TLC checks on the specification that a session never desynchronises and delivers exactly what was sent for every history of Set Chunk Size announcements and boundary lengths (NoDesync, PrefixOk, InFollowsOut, AllDelivered, AppendOnly), shows the invariant is sensitive (deviation run), and every finished behaviour TLC found is executed by the real code after the real handshake under several read segmentations, comparing each delivered message and the projected chunk sizes with the specification",
            "trusts TLC, the transport/replayer and the verif export shim; payloads are patterns; bounds per cfg (<= 4 writes exhaustive, simulation beyond)", "5/C01"),
    "C02": ("model_checking",
            "TLA+ spec RtmpChunk.tla: ConformantSend (all header-type/form/interleaving choices of RTMP 1.0 5.3.1) against the reference receiver Decode, model-checked by TLC; every TLC-found wire rendered to bytes by the spec and replayed into rtmp.Protocol.ReadMessage",
            "TLC proves on bounded families that the specification's conformant sender and reference receiver agree (DecodeOk, Agree) and that each rule violation is rejected; every wire TLC finds (about 11k in quick, 150k+ plus simulation in thorough) is fed as bytes to the real reader under three segmentations and must deliver exactly the specification's messages, timestamps and error/EOF outcome",
            "trusts TLC, the LD expander and the transcription of RTMP 1.0 section 5.3 in RtmpChunk.tla; sender timestamps < 2^31; no Abort; bounds per family cfg", "5/C02"),
    "C12": ("model_checking",
            "TLA+ spec Avc.tla (TLC: round-trip/reserved-bit invariants) + TLC-enumerated cases replayed into avc package, ISO layout from the spec as oracle",
            "TLC exhaustively checks the AVC container spec (records, samples, NAL units) for self-consistency on small values, enumerates the boundary value matrix, and every enumerated value is replayed into the real marshal/unmarshal code with the spec's byte layout as the independent oracle",
            "trusts TLC, the LD expander and the transcription of ISO/IEC 14496-15 5.2.4.1 in Avc.tla; payloads are patterns", "5/C12"),
}

NOT_YET = "check not built yet in this revision of /verif (work in progress; see DESIGN.md section 5)"


def hook_commits():
    try:
        out = subprocess.run(["git", "-C", "/repo", "log", "--format=%H %s"], stdout=subprocess.PIPE, text=True).stdout
        return [l.split()[0] for l in out.splitlines() if "verif hook:" in l]
    except Exception:
        return []


def main():
    checks = []
    for pid in ALL:
        if pid not in CHECKS:
            continue
        level, tech, text, note, ref = CHECKS[pid]
        checks.append({
            "property_id": pid,
            "quick_cmd": "./vcheck %s --tier quick" % pid,
            "thorough_cmd": "./vcheck %s --tier thorough" % pid,
            "evidence_file": "/verif/evidence/%s.json" % pid,
            "replay_cmd_template": "./vcheck %s --replay {path}" % pid,
            "engine": "vcheck",
            "level_claimed": {"category": level, "text": text, "design_ref": "DESIGN.md section " + ref},
            "level_note": note,
            "technique": tech,
        })
    m = {
        "version": 1,
        "setup_cmd": "./tools/setup.sh",
        "hooks": {
            "guard": "verif",
            "enable": "go build -tags verif (the harness module /verif/harness replaces github.com/ossrs/go-oryx-lib with /repo)",
            "baseline_off_cmd": "cd /repo && GOFLAGS=-mod=mod GOPROXY=off GOSUMDB=off GOTOOLCHAIN=local go test -vet=off -count=1 ./...",
            "source_commits": hook_commits(),
            "add_only": True,
        },
        "engines": [{
            "name": "vcheck", "path": "/verif/vcheck",
            "serves_properties": sorted(CHECKS),
            "kind_free_text": "python driver: TLC model checking of spec/<subsystem>/*.tla, TLC case/behaviour generation, Go replay into the real library (harness/), TLC trace validation of recorded executions",
        }],
        "checks": checks,
        "not_applicable": [{"property_id": p, "reason": NOT_YET} for p in ALL if p not in CHECKS],
        "notes": "Exit 2 from a check means the machinery failed (tool error, timeout); it is never a verdict. known_findings.json lists genuine defects (known / fixed).",
    }
    with open(os.path.join(VERIF, "MANIFEST.json"), "w") as f:
        json.dump(m, f, indent=1)
        f.write("\n")


if __name__ == "__main__":
    main()
