#!/usr/bin/env python3
"""Regenerates /verif/MANIFEST.json from the table below (single source of truth)."""
import json
import os
import subprocess

VERIF = os.path.dirname(os.path.dirname(os.path.abspath(__file__)))
ALL = ["C%02d" % i for i in range(1, 21)]

# id -> (level, technique, text, note, design_ref)
CHECKS = {
    "C01": ("model_checking",
            "TLA+ specs RtmpSession.tla (message-level session, both directions, handshake) and RtmpChunk.tla (chunk-level refinement) model-checked by TLC; every TLC behaviour replayed into two real rtmp.Protocol endpoints with state comparison after each step",
            "TLC checks on the specification that a session never desynchronises and delivers exactly what was sent for every history of Set Chunk Size announcements and boundary lengths (NoDesync, PrefixOk, InFollowsOut, AllDelivered, AppendOnly), shows the invariant is sensitive (deviation run), and every finished behaviour TLC found is executed by the real code after the real handshake under several read segmentations, comparing each delivered message and the projected chunk sizes with the specification",
            "trusts TLC, the transport/replayer and the verif export shim; payloads are patterns; bounds per cfg (<= 4 writes exhaustive, simulation beyond)", "5/C01"),
    "C02": ("model_checking",
            "TLA+ spec RtmpChunk.tla: ConformantSend (all header-type/form/interleaving choices of RTMP 1.0 5.3.1) against the reference receiver Decode, model-checked by TLC; every TLC-found wire rendered to bytes by the spec and replayed into rtmp.Protocol.ReadMessage",
            "TLC proves on bounded families that the specification's conformant sender and reference receiver agree (DecodeOk, Agree) and that each rule violation is rejected; every wire TLC finds (about 11k in quick, 150k+ plus simulation in thorough) is fed as bytes to the real reader under three segmentations and must deliver exactly the specification's messages, timestamps and error/EOF outcome",
            "trusts TLC, the LD expander and the transcription of RTMP 1.0 section 5.3 in RtmpChunk.tla; message timestamps are the 31-bit values the property defines, the sender's clock runs forward and may roll over (deltas mod 2^31; a step back of the 31-bit value counts as a roll-over only if it is less than 2^30 ms ahead, otherwise type 0), extended deltas >= 2^31 not generated; no Abort; bounds per family cfg", "5/C02"),
    "C03": ("model_checking",
            "TLA+ specs RtmpPacket.tla (packet layouts over AMF0, sizes, dispatch function) and RtmpTxn.tla (outstanding-request table, typed waits) model-checked by TLC; TLC-enumerated packet matrix and histories replayed into real rtmp.Protocol endpoints with the pending table compared after every step",
            "TLC checks MatchOnce/OnePerTid on every history of sends, peer items, decodes and typed waits within the bounds (and shows a lookup-without-delete deviation violates it); the full packet matrix (all kinds, optional fields, 65536 user-control event types) is enumerated with the specification's layout/size/dispatch kind and every packet and every history (about 25k quick) is executed by the real code: marshal = layout, Size() exact, unmarshal equal, peer decodes to the protocol's type, transaction table equal to the model's after each step, typed waits return the first match",
            "trusts TLC, the LD expander, the verif export shim (pending table) and the transcription of RTMP 1.0 sections 5.4/7.1/7.2; command objects from a small family", "5/C03"),
    "C04": ("model_checking",
            "TLA+ spec RtmpTxnConc.tla (writer/reader/peer processes; register-before-write) model-checked by TLC over all interleavings; TLC schedules forced onto the real code with a gated transport; free-running -race executions validated as traces against Trace_RtmpTxnConc.tla",
            "TLC explores every interleaving of the writer's steps, the peer's (possibly duplicated) responses and the reader's read/lookup for up to 3 requests (NoSpurious, MatchOnce, NoLoss; the register-after-write deviation yields the 5-step counterexample); every schedule is forced deterministically onto a real rtmp.Protocol (gates, no sleeps) and each lookup outcome compared; recorded free-running executions under the race detector are accepted by the trace specification only if a registration point before the transport write explains every lookup result; a corrupted trace is shown to be rejected",
            "trusts TLC, the gated transport and the event log order (log and peer writes under one mutex); register/transport-write entry and read/lookup are adjacent in forced schedules; stress covers the runtime's interleavings over seeds", "5/C04"),
    "C05": ("model_checking",
            "TLA+ spec Amf0.tla (StrictKeyed layout; encoder, byte-level decoder, API-shaped builder state machine) model-checked by TLC incl. named deviations; TLC-enumerated and simulated trees replayed into the amf0 package",
            "TLC checks on the specification that size, round trip, consumed = Size(), alignment of the following value and canonical re-marshal hold for every New/Set behaviour and raw pair list within bounds; every enumerated or simulated tree is built through the public API and marshalled, decoded, walked and re-marshalled by the real library - also with repeated keys, trailing bytes and a following value located by Size() - against the specification's bytes",
            "trusts TLC, the LD expander and the transcription of amf0_spec_121207 plus the library's keyed strict-array convention; names/strings are byte patterns; depth 2 (quick) / 4 (thorough)", "5/C05"),
    "C06": ("model_checking",
            "same module Amf0.tla with the AMF0 specification's strict-array layout as the independent encoder/decoder (evaluated by TLC); all 256 markers in 5 positions; known deviation StrictKeyed predicted by the spec",
            "library bytes equal the specification's Enc(v) and the library decodes Enc(v) to v for every generated tree incl. FFmpeg/Flash metadata; Discovery class and decode/no-decode match for all 256 markers in every position; trees with non-empty strict arrays are classified as the known finding only if both encoder and decoder behave exactly as the specification's StrictKeyed prediction, anything else is a violation",
            "the independent implementation is the TLA+ spec evaluated by TLC; strict-array elements have no positional accessor (compared through bytes)", "5/C06"),
    "C07": ("exploration",
            "TLA+ spec Untrusted.tla (Pick -> Mutate -> Decode state machine over the specification's valid encodings of every wire format, mutation operators as actions - field overwrite / truncate / dup / drop / splice / nest, Restate (a chunk header re-stating length/type/stream of a message in progress), DER inner truncation with re-computed outer lengths, Forge (a hostile sender that holds the content key: authenticated hostile ciphertext, iv, padding, deflate stream, CEK size) - Total/WellFormed/Bounded invariants checked by TLC, named deviation PanicOnForbidden) + TLC-enumerated mutation instances, enum ranges and scaling families replayed into 56 decoder variants of the real library under recover, a stall/heap watchdog and a growth-ratio timer",
            "every listed decoder (rtmp chunk/message/packet, amf0, flv, aac, avc, websocket in both roles with and without compression, JOSE with every key kind, OCSP, JSON+) is fed the specification's valid encodings under every single mutation operator instance TLC enumerates (two operators in thorough) plus 8 (quick) / 64 (thorough) seeded random byte mutants of each and random strings up to 64 KiB - 1.7 M calls quick, 44 M thorough; each call must return a value or an error: no panic, no stall, no unbounded allocation; all enum helpers are total over their 8/16-bit ranges; no scaling family grows faster than 3.2x per doubling over its last three doublings (thread CPU and wall clock, re-measured before a verdict)",
            "the input space is sampled, not exhausted, no coverage-guided fuzzing; linear time judged only on the named families up to 256 KiB (quick) / 1 MiB (thorough) with loose thresholds; JOSE/OCSP seeds made by the library's own writers plus RFC forms and an independent JWE writer of the harness (stdlib crypto) for the forged objects; a fatal runtime error (stack exhaustion, OOM) ends the replayer with exit 2 instead of a verdict; trusted: harness/ld, rp, transport, Go's recover", "5/C07"),
    "C08": ("model_checking",
            "TLA+ specs ErrChain.tla (constructor nestings, Cause/text/nil rules) and FramedIo.tla (framed stream over a transport that ends or fails at any byte; Complete(n) oracle) checked by TLC; TLC-enumerated nestings and sessions replayed with every cut offset and every read/write call fault against errors, rtmp (incl. handshake) and flv",
            "TLC checks the framed-stream model for every cut / read-fault offset of a small stream (returned items = exactly the completely transferred ones, in order, then the transport's error class; the 'partial item returned' deviation violates it); every constructor nesting to depth 4/6 and every generated RTMP session, FLV file and the handshake is replayed against the real code at EVERY cut offset under two segmentations and with an injected sentinel at every read and write call index, checking root-cause identity through errors.Cause, exact item counts and that nothing is returned together with an error",
            "trusts TLC, the in-memory transport's fault injection and observed item end offsets (the spec's predicted sizes are info only); EOF vs UnexpectedEOF not judged; quick: streams above 4 kB use boundary+stride offsets", "5/C08"),
    "C09": ("model_checking",
            "TLA+ spec FlvFile.tla: mux/transport/demux state machine with byte-level reference decoder, TLC invariants and two named deviations; TLC-generated files and seeded walks replayed into the flv muxer/demuxer, layout from the spec as oracle",
            "TLC explores every interleaving of muxer calls, segment deliveries and demuxer calls for all flag combinations and small tag lists (Layout, RefDec, Prefix, Final, Framing, Monotone); the boundary matrix (sizes to 2^24-1, timestamps around 2^24/2^32-1) is enumerated and each file is replayed: library bytes must equal the specification's byte for byte, and the demuxer must return the same tags from library-written and spec-written bytes under whole/1-byte/random segmentation",
            "trusts TLC, the LD expander and the transcription of FLV v10.1 Annex E; bodies are patterns; schedules from simulation are sampled", "5/C09"),
    "C10": ("model_checking",
            "TLA+ spec FlvTag.tla (audio/video tag bodies per FLV E.4.2/E.4.3 + Opus extension, canonical predicates) checked by TLC incl. deviation; TLC-enumerated codec matrix replayed both directions into the flv packagers",
            "TLC proves on the specification that round trip, first byte and reproduction hold for every first byte and trait byte and that the named 'Opus rate not masked' deviation breaks FirstByte; 42k (quick) / 419k (thorough) cases are replayed: Decode(Encode(f)) = f, whole first byte, Encode(Decode(b)) = b on spec-written bodies, ToHz/OpusToHz over 0..255",
            "states = finite case matrix; payload patterns; dimensions factored; symmetric deviations beyond the first byte are info only because the property asks for round trips", "5/C10"),
    "C11": ("model_checking",
            "TLA+ spec Adts.tla (ADTS object state machine + ISO 13818-7 header / ASC layout functions, reference decoder) checked by TLC incl. 7-byte-CRC deviation; TLC-enumerated matrices and behaviours replayed into the aac package",
            "TLC checks all interleavings of SetASC/Encode/ISO-writer/Decode writing up to 3 frames (every stream decodes frame by frame to exactly its raw blocks, remainder at the next sync word), the layout functions over the full finite matrices (65536 ASC values, all header field combinations), and every enumerated case/behaviour is replayed into the real library with the specification's bytes, results and abstract state as oracle",
            "trusts TLC, the LD expander and the transcription of ISO 13818-7 6.2 / 14496-3 1.6.2.1; CRC value itself is not checked (library does not verify it); ID/private/copyright/fullness bits of encoder output not judged", "5/C11"),
    "C13": ("model_checking",
            "TLA+ validator WsWire.tla of recorded frame streams (TLC trace validation, 16 named sender deviations rejected) + TLC-enumerated writer configuration matrix (WsWriterCfg) + handshake decision table (WsHandshake), replayed into real Conn/Dialer/Upgrader",
            "every frame the library writes is tokenised by an independent RFC 6455 parser and replayed as one step of WsWire.tla (FIN/continuation sequencing, masking by role, minimal length form, control frames <=125 and unfragmented, RSV1 only on the first frame of a compressed message, RFC 7692 tail removal, payload equality after reassembly/inflation) for sessions over role x compression level x buffer size x six write APIs x boundary sizes x partitions; the peer endpoint must return exactly the messages; Upgrade and Dial follow the RFC 6455 section 4 table with an independently computed accept key; corrupted recorded traces are shown to be rejected in every run",
            "trusted: the Go tokenizer and inflater (compress/flate), loopback TCP; payloads are patterns or seeded random bytes; deadlines, TLS, proxies, subprotocols not exercised", "5/C13"),
    "C14": ("model_checking",
            "TLA+ RFC 6455 receiver state machine WsReader.tla; TLC invariants + 3 named deviations; bounded-exhaustive and simulated behaviour replay (model -> code) into a real websocket.Conn with every-frame stream cuts",
            "for every sequence of frames an arbitrary peer can send within the listed alphabets and depths (all section-5 rules one factor at a time to depth 3-4, opcode x FIN to depth 4-5, the full header product as first frame, message sizes around limits 1/125/126/1000/65535 incl. 2^63-1 / 2^63 / 2^64-1 lengths, both roles) and for random 30-frame behaviours, a real Conn delivers exactly the messages the specification's receiver delivers, fails permanently at the first rule violation and writes Close 1002, returns ErrReadLimit for any framing of an over-limit message, answers pings with identical pong payloads, and never delivers anything when the stream is cut inside a frame or an open message",
            "trusts TLC, the LD expander, the in-memory transport and the VerifNewConn hook; minimal length forms only; payload patterns; top-bit lengths only required to fail; close code with the limit error and reason texts are free", "5/C14"),
    "C15": ("model_checking",
            "TLA+ spec WsConc.tla (write lock, close-sent latch, per-frame transport writes; TLC over all interleavings, four named deviations) + TLC-generated schedules forced on a gated transport under -race + TLC trace validation of the recorded executions",
            "in the model every interleaving of one data writer (multi-frame messages, frames of one or two transport writes), k control senders and a closer keeps the writes of a frame adjacent, puts nothing on the wire after a Close frame, makes later calls fail with close-sent and keeps data frames in order; each schedule the model allows, plus schedules that attempt the forbidden steps, is forced on the real Conn; every recorded execution (transport write order, call results, tokenised wire, messages delivered to a real peer) must be accepted by the specification and the race detector must stay silent; corrupted traces are shown to be rejected",
            "trusted: in-memory gated transport, scheduler, goroutine attribution, frame tokenizer; control write deadlines come in two classes, far and short (2 ms); time is not modelled: a short-deadline call may give up whenever it waits; lock hand-off among waiters is the runtime's choice (coverage, not verdicts, depends on it); library-internal steps not separated by a transport operation are covered in the model and only sampled on the code", "5/C15"),
    "C16": ("model_checking",
            "symbolic TLA+ state machine Jose.tla (TLC: accept-iff-untampered invariants, 3 named deviations) + TLC-enumerated RFC 7518 matrix replayed with real keys and single-bit flips into https/jose",
            "TLC checks on a perfect-cryptography term model that verification/decryption succeeds exactly when no carried field was changed and the key is the same, for every algorithm/serialization/tamper class, and enumerates the whole matrix; every enumerated object is signed/encrypted, serialized, bit-flipped per field (every bit for 1-byte payloads in thorough), parsed and opened by the real library and compared with the model's verdict; JWS signatures are also checked by an independent stdlib verifier; JWK round trip, fixed-width coordinates (leading-zero keys) and the RFC 7638 thumbprint are checked against spec tables",
            "cryptography uninterpreted in the model; evidence for bit flips is the flips actually tried; trusts Go stdlib crypto, TLC and the RFC table transcription; symmetric JWE-side wrong-primitive deviations not visible; oct thumbprints and acme unexported functions not judged", "5/C16"),
    "C17": ("model_checking",
            "TLA+ character-class lexer spec JsonPlus.tla (TLC: strip / pass-through invariants under every read segmentation, named deviation) + TLC-enumerated and TLC-simulated documents replayed into json.Unmarshal / NewJsonPlusReader with encoding/json on the undecorated text as oracle",
            "TLC checks exhaustively that the reference stripper delivers exactly the comment-free text for every small structurally generated document under every segmentation, that the library's apostrophe regions are harmless on valid documents, and that the pre-fix end-of-string rule violates the invariant; every document of the families (all string bodies of <= 4/5 atoms, all comment bodies of <= 4/5 characters, combinations, gaps, skeletons, tokens up to 100 KB / 2 MB) and random long documents with spec-chosen reads are replayed into the real reader in two concretisations and 4-5 segmentations",
            "trusts TLC, the class abstraction (several representatives per class, not all of Unicode) and encoding/json as the standard decoder; segmentations of the real code are sampled; comments stand only between tokens", "5/C17"),
    "C18": ("model_checking",
            "TLA+ spec LoggerCid.tla (lock / alias / one-write; TLC over all interleavings, three named deviations) + -race trace validation of recorded executions by Trace_LoggerCid.tla",
            "within the bounds every interleaving of the specification keeps new ids unique, aliases equal to their source, and each log call one whole line with the right prefix; recorded executions of the real package (2-64 goroutines, every level and function, every context kind) are accepted event by event by the same spec's actions (freshness of every new id, alias = source, one write per call with the passed context's cid), the race detector reports nothing in the logger package, and corrupted traces are shown to be rejected",
            "schedules of the real code are sampled, not enumerated; ids are read back by logging each context; Info lines go to Discard by design; prefix not judged for contexts without id; trusted: Go race detector, harness tokeniser", "5/C18"),
    "C19": ("model_checking",
            "TLA+ spec HttpApi.tla (request -> handler decision table -> client verdict) checked by TLC with six named deviations; TLC-enumerated table replayed into the real handlers (ResponseRecorder) and ApiRequest over a loopback server",
            "for every row of the answer table (kinds x codes incl. negatives and 64-bit extremes x statuses x value classes incl. unmarshalable x callback forms) the real handlers through every public entry point produce the response the specification predicts, and the client half never confuses success and failure",
            "pure decision table; encoding/json and net/http trusted for parsing; plain-error text assumed not to be a JSON object with code 0 (client ignores the HTTP status)", "5/C19"),
    "C12": ("model_checking",
            "TLA+ spec Avc.tla (TLC: round-trip/reserved-bit invariants) + TLC-enumerated cases replayed into avc package, ISO layout from the spec as oracle",
            "TLC exhaustively checks the AVC container spec (records, samples, NAL units) for self-consistency on small values, enumerates the boundary value matrix, and every enumerated value is replayed into the real marshal/unmarshal code with the spec's byte layout as the independent oracle",
            "trusts TLC, the LD expander and the transcription of ISO/IEC 14496-15 5.2.4.1 in Avc.tla; payloads are patterns", "5/C12"),
    "C20": ("model_checking",
            "TLA+ spec Kxps.tla (three windows, cascade, average, started flag; Observe/Start/ReadRate actions) model-checked by TLC with five named deviations; exhaustive and simulated behaviours replayed into the real meter with an injected clock (identity and x2^48 counter embeddings, public Kbps/Krps)",
            "for every (time, counter) history within the bounds the 10/30/300 s rates equal growth since that window's previous sample divided by the window length (kbit/s-scaled for Kbps), stalls and decreases give 0, the average equals growth since the first non-zero observation over elapsed time, every value is finite and non-negative, and reads before Start are refused; histories include stalls, decreases, resets, wrap-around and the int64 sign boundary",
            "trusted base: kxps/verif_export.go hook (sampling step with injected clock); windows not consulted by the library's cascade are not judged; Average() via a monotonic-clock bracket", "5/C20"),
}

# what the later strengthening rounds added, appended to the rows above: id -> (technique, text, note)
ADDENDA = {
    "C01": ("; handshake and session share one byte stream per direction: TLC enumerates the interleavings of both endpoints' six handshake calls with the first session writes (RTMP 5.2.1 order, partial-order reduced), invariant HsExact (a handshake read consumes exactly its 1/1536 bytes), deviation handshake-overread; the replayer executes that schedule",
            "; the session bytes of the peer may lie in the transport behind C2/S2 (or S2 behind C1) before the library reads them, in whole / random / 1-byte segmentation, both roles",
            "; handshake calls in a standard-legal order, one Handshake object per endpoint; transport byte counters are diagnostics, the verdict comes from the messages"),
    "C03": ("; byte-level codec model RtmpCodec.tla (Marshal / Unmarshal into the constructor's packet and into a blank packet / Remarshal; invariants FieldsSurvive, DecodedSizeIsPayload, RemarshalIsPayload; deviations empty-is-absent, trust-preset, zero-keeps-preset)",
            "; every packet is decoded through DecodeMessage, ExpectPacket, the constructor's packet and a blank packet and every field compared with the specification's value, over the value classes empty / 1 byte / constructor preset / other for every string, 0 / preset for every number, null / undefined / object / absent for value slots",
            "; constructor presets are transcribed from the library's constructors (they select value classes and the model's decode target); blank connect packets carry an allocated empty command object"),
    "C04": ("; a request reaches the transport in 1..k transport writes (RegAfter / Parts), size x chunk-size matrix, deviations register-before-flush and lookup-then-reset; aimed interleaving stress (writer released when the transport hands response i to the reader, feedback-centred delay sweep)",
            "; every schedule is also replayed with requests of 300 B to 300 KB under output chunk sizes 128 B to 1 MB with the peer answering from inside the completing transport write; 11k (quick) to 140k (thorough) aimed rounds check 'every response matched' between the reader's critical sections (probabilistic: atomicity violations invisible to gates and to the race detector)",
            "; trusts the harness's own chunk-stream parser to decide when a request is complete; windows inside the library are hit statistically, not enumerated; aim needs >= 2 CPUs"),
    "C05": ("; live-object histories (heap machine Amf0Live.tla: New / Set / attach existing / assign through the pointer / re-decode, an observation after every call; invariant LiveSize, deviation marshal-cache)",
            "; the bytes and Size() of ANY node observed at any point of a history of calls (marshal, change below, marshal; decoded trees edited afterwards; shared nodes) are those of its current value - exhaustive for one call between two observations on all 27 three-level start trees, random walks of 14 calls beyond; the ECMA associative count is left to the writer and not compared; bytes the library marshalled must re-marshal to exactly themselves",
            "; no concurrent calls on one tree"),
    "C06": ("; live-object histories as in C05 (Amf0Live.tla, invariant LiveDecodes: the independent decoder maps the observed bytes to the current value; deviation marshal-cache)",
            "; the same for any node at any point of a history of API calls (marshal, change below, marshal); the ECMA associative count, which the AMF0 specification does not tie to the pairs, is not compared",
            "; a strict-array value in a history is classified as the known finding only if the bytes are exactly the StrictKeyed layout of the CURRENT value"),
    "C09": ("; dense body-size sweep generated by TLC (every size 0..12352 quick / 0..70000 thorough as 2- and 3-tag files) and two scratch-buffer deviations (mux-scratch-trunc, demux-scratch-short) that are wrong for 4 sizes only",
            "; every body size of the sweep is written, compared byte for byte and demuxed the same way (implementation boundaries: fast paths, scratch or buffered-io blocks); at model scale TLC checks every size 0..20 in all interleavings",
            "; an implementation boundary above the sweep's end is seen only at matrix values or random thorough sizes"),
    "C11": ("", "; every frame the library returned is held and must be unchanged after all later calls (reused output buffers)", ""),
    "C12": ("", "; every marshalled record / sample / NAL unit is held and must be unchanged after all later calls (pooled or reused buffers)", ""),
    "C02": ("; roll-over of the 31-bit timestamp (Forward / Delta31; the reference receiver reduces after every addition; deviation timestamp-reduced-only-after-extended)",
            "; sums that pass 2^31 through plain 24-bit deltas (fmt 1/2), through the delta a fmt-3 first chunk repeats and through extended deltas, several roll-overs in a row on two chunk streams", ""),
    "C13": ("; write-buffer residue sweep (buffers of every residue mod 8); WsPeer.tla: symbolic-octet receiver model (per-frame key and position, decompress flag from RSV1) driven by a conformant foreign sender, four receiver deviations",
            "; client fragment lengths and their running sums take every residue mod 4 and mod 8; every stream of a WsWire-accepted foreign sender (one message cut at any 2-3 of 14 lengths around the key and word sizes, lists of 2-3 messages compressed or not in every order with pings between frames, 4 mask-key schedules) is written into a real Conn of either role and must be read back byte for byte",
            "; symbolic XOR is exact for independent key octets, the harness uses 4 concrete key schedules incl. degenerate keys; foreign messages are at most 101 octets; a process-killing library panic in a stage is a verdict when seen in 2 of up to 3 runs"),
    "C14": ("; configuration variable bufsize that no action reads, two-copy lockstep model MC_WsReaderBuf (invariant BufferBlind), deviation control-needs-buffer",
            "; for read buffer sizes {default, 1, 2, 13, 14, 15, 64, 124, 125, 126, 1024} crossed with control frames of every legal payload size around the buffer and data frames around it, the same sizes swept in every other family, server role also through the real Upgrader with hijacked readers of 16-4096 bytes",
            "; write buffer sizes not varied here (C13); a failing run that took 0.8 s or longer is driven again (the library's default handlers write with a 1 s deadline and drop the answer silently when starved)"),
    "C15": ("; a reader process whose Ping/Close handlers (default and application) answer through the control path, application pauses of the data writer with its message open (after NextWriter, bytes buffered, between two frames); invariant MsgIntact; six named deviations",
            "; the frames of a data message are exactly the data writer's own transport writes; peer Ping/Close frames are delivered at every point of the writer's message, including inside WriteMessage",
            "; the reader writes only from Ping/Close handlers of well-formed peer frames; default handlers have the writeWait deadline, may give up and their result is not observed; a transport failure and its latching are separate steps"),
    "C16": ("; JoseHist.tla: 1..3 signers / recipients with their own algorithms and headers, histories of Open (right / wrong / foreign keys in any order) and Reserialize on ONE parsed object (TLC: HistoryFree, HAcceptOnlyIf, HRoundTrip; deviations open-consumes-object, shared-entry-header), behaviours replayed on one parsed object",
            "; every party's key of a 1..3-party general-JSON object opens it at any point of any sequence of opens with any keys, verdicts do not depend on the history of the parsed object, a re-serialized copy opens as a no-history copy would, per-entry tampering is rejected for the owning party's key",
            "; several-party algorithm alphabets are tier subsets, several-recipient JWE without zip and aad, history length 2 (3 for one party in thorough); the verdict for another party's tampered entry is free; /repo is compiled under its own go.mod's loop-variable semantics"),
    "C18": ("; caller-owned operand slices (own reuse and concurrent read-only sharing, capacity / window sweep): state buf, invariant OperandsUntouched, deviation prefix-inserted-in-place",
            "; every call's line ends in exactly what its operands, as the application filled them, format to, and the call leaves the caller's operand slice up to its capacity untouched - for operands written out in the call, windows of a goroutine's own reused slice and windows of a slice passed read-only by all goroutines at once",
            "; token-less println calls on shared slices are attributed by multiset matching"),
    "C19": ("; behaviours of one handler object (Create, then Mutate / Arrive / Respond / ClientRead up to MaxServes times; invariants ResponseOfCurrentValue, AnswerIsCurrent; deviation first-response-cached), exhaustive lives plus seeded simulation",
            "; every response of a handler object (Data / Error / CplxError and the Write* forms, registered on a ServeMux, served several times while the value behind it moves between value classes and versions) is that of the value AT THAT REQUEST and of that request's callback",
            "; requests on one object are sequential (no mutation while a request is in flight)"),
    "C20": ("; lifecycle with Close (states new / running / closed-unstarted / closed-after-start / restarted; invariants ReadsRefusedUnlessStarted, ReadsAnsweredWhileRunning, ClosedIsFinal; deviation closed-counts-as-started); every lifecycle history of length 5 (quick) / 6 (thorough) replayed on the public Kbps and Krps, with the hook and with the real Start()",
            "; reads are refused in every history in which Start was never called (also after Close) and answered while the meter is running",
            "; reads after Start-then-Close or Close-then-Start are specified as the library does them and judged only for finite non-negative values; what Close() returns is not judged"),
}

# round 4 (combinations, rarely used entry points, partial failures): appended after ADDENDA
ADDENDA4 = {
    "C01": ("; Set Chunk Size on every message-stream-id class, all RTMP 1.0 message types incl. Abort / Acknowledgement as first / middle / last message of a direction; writer-buffer state `held` with invariant Flushed; deviations reader-ignores-scs-on-stream, lazy-flush",
            "; the peer reads exactly the written sequence including the last message of a direction with nothing written behind it, and a further read finds no message", ""),
    "C03": ("; typed waits for every control packet type while responses arrive (counters seen / refused, invariant EveryResponseJudged, deviation wait-skips-undecoded)",
            "; every response a typed wait passes over - also a wait for Set Chunk Size, User Control, Window Ack Size, Set Peer Bandwidth - is matched exactly once or fails the wait", ""),
    "C04": ("; transaction table keyed by KeyOf with typed slots (invariant RightType, deviation lossy-key), transaction-id value classes",
            "; every schedule of 2-3 simultaneously outstanding requests is also replayed over 8 classes of ids that are distinct AMF0 numbers but collide under integer truncation, 32-bit wrap, float32, int64 overflow or short formatting: each response is matched once and decoded as its own request's response type",
            "; id classes are positive finite doubles"),
    "C05": ("; origin of objects (constructor / Go zero value / composite literal / new(T) / decoded into a zero value) as a dimension of Amf0Live (deviation marker-by-constructor)",
            "; the encoding holds whichever legal way the objects of a value came to be", ""),
    "C06": ("; origin of objects as in C05", "; the specification's encoding holds whichever legal way the objects of a value came to be", ""),
    "C08": ("; one-shot transport faults (call k fails, later calls work; invariant ErrorSurfaces, deviation fault-swallowed-at-boundary) and constructor chains of depth 33 to 1000",
            "; a transport failure at any single read or write call surfaces in the call during which it happened also when the transport works again afterwards (whole, random, item-aligned and 1-byte read segmentation); Cause reaches the root through runs of up to 1000 repeated constructors (total depth 2100 in thorough)",
            "; the fault returns (0, err) without data; the thorough tier replays every cut offset for streams up to 20 kB plus a seeded 1/24 of the larger ones, the other large streams are sampled (item boundaries +-3, first 24 bytes of each item, 4 kB multiples +-1, stride 61)"),
    "C09": ("; the caller's memory holding all bodies adjacently (arena, invariant InputsUntouched, deviation mux-append-in-place) and end of stream delivered with the last bytes (DeliverFinal, invariant NoLoss, deviation demux-err-before-n)",
            "; the muxer only reads its inputs (bodies are adjacent windows of one buffer, compared with their snapshot after every WriteTag); every demux replay also with io.EOF delivered together with the last bytes", ""),
    "C11": ("; payload value classes (the raw block is itself a complete ADTS frame, wrapped up to three times, sync-word prefixes, header-only) and TLC-generated long-stream shapes up to 1 MiB; deviations PassThrough, LenMod (model-checked at real scale with a 73,719-byte stream)",
            "; raw blocks are content: Encode / Decode round-trip when the block looks like a frame; streams ending just below / above 2^15..2^20 decode frame by frame through one buffer with exact remainders", ""),
    "C12": ("; per-position NAL size classes for every length size, Annex-B start-code look-alikes in payloads, header matrix (all 256 values of profile / compatibility / level against classes of the other two); deviations annexb, refine",
            "; every exported field is compared after unmarshalling spec-written bytes, the library's own bytes and API-built records, so value-only asymmetries that leave bytes unchanged are visible", ""),
    "C13": ("; read-buffer dimension in the receiver model (BufCap, deviation read-buffer-unclamped); PreparedCache.tla: lookup / run-once build / publish / take per key, TLC over every schedule of 3 writers (invariant HandedBuilt, deviation published-before-built) + concurrent broadcast replay",
            "; the receiving Conn's ReadBufferSize {default, 1, 16, 64, 100, 124, 125, 126, 4096} crossed with pings of 0..125 octets around and inside messages, reached through the foreign sender, the library sender and Dialer/Upgrader sessions; one PreparedMessage written to 3 connections at once (every multiset of options, used before or not, 1000 B or 500 kB): every peer reads the broadcast and the message behind it",
            "; which schedule a broadcast realises is the Go scheduler's choice: a schedule-dependent defect is found with high probability, not certainty, and confirmed by re-running the failing cases"),
    "C14": ("; configuration dimension permessage-deflate negotiated (RSV rule of RFC 6455 5.2 with RFC 7692 6: invariant ReservedBitsOk over the frames taken in; deviations rsv1-shadows-reserved-bits, rsv1-on-non-first-frame-accepted)",
            "; with and without permessage-deflate: RSV1 accepted exactly on the first frame of a data message (the message is then inflated and delivered), every other use of RSV1/RSV2/RSV3 fails with Close 1002 - full RSV product x opcode x FIN x mask as single frames, sequences to depth 2-3 with compressed or fragmented messages and control frames",
            "; compression is a dimension of the header, pmd and sim families; compressed payloads are stored-block DEFLATE streams made by the replayer; invalid DEFLATE data, context takeover and window parameters are not judged"),
    "C15": ("; transport writes made to fail (timeout / plain error) with the transport open after a proper prefix - control frames, data header+buffer, data extra, handler answers (action TFault, invariant CutIsLast, deviation timeout-not-sticky)",
            "; a frame left incomplete by a failed transport write is the end of the stream: the failed call and all later calls fail and nothing is written behind it",
            "; fault positions are chosen single writes, the accepted prefix is half of the bytes or none; which error is returned is not judged"),
    "C16": ("; value classes in Jose.tla: payload tails that look like the PKCS#7 padding for every length mod 16, wrong keys related to the right symmetric key (prefix-extended, zero-extended, truncated, zero-stripped); deviations unpad-greedy, key-resized",
            "; every object with a raw symmetric key is also opened with K+1 octet, K doubled, K+zeros, K minus one octet and half of K and must fail; payloads whose last octet, trailing run or every octet equals the pad value of their length come back whole under all 6 content encryptions",
            "; no claim for HS* about K versus K followed by or stripped of zeros (RFC 2104: one key)"),
    "C18": ("; message-shape and Cid() value classes (empty / interior and trailing newlines / CR / > 64 KiB; 0, negative, 32/64-bit ids), the Write call as the unit; invariant Adjacent; deviations split-at-newline, obj-cid-unsigned",
            "; one logging call is exactly one Write of label, time, prefix and the whole rendered message for every shape in println and printf form; the Cid() of an application object is printed as the integer it is through both forms", ""),
    "C19": ("; error kinds as facets of the value handed over (concrete type / Code() / Status()) crossed with how it reaches Error (direct, pointer, embedding, Wrap / WithMessage / WithStack); deviations status-shadows-code, cause-dispatched",
            "; an error that has its own code is answered with that code also when it has Status() too; values that are neither the library's error types nor carry Code()/Status() themselves are answered as plain errors with 500",
            "; precedence SystemComplexError > SystemError > Code() > Status() as in Error(); Cause() is not consulted"),
}

# round 5 (a second instance, two entry points for one operation, state that matters for the operation after the next)
ADDENDA5 = {
    "C01": ("; assumption NoSharedState of the one-session model tested by a -race stage `pair`: seeded pairs of TLC-generated behaviours replayed concurrently in one process, turns changing at every transport read",
            "; two sessions of one process do not interfere (a sample of pairs)", ""),
    "C03": ("", "; payloads of messages returned by ReadMessage / ExpectMessage are held and must survive later reads", ""),
    "C04": ("; a bystander connection of the same process holding requests with the same ids", "; connections of one process do not share their transaction table (the bystander's outstanding requests are unchanged by every schedule)", ""),
    "C13": ("; control messages written through every entry point (WriteControl, WriteMessage, NextWriter+Write+Close, control-type prepared message)",
            "; in the multi-message writer sessions the pings and the close frame go through each entry point for control messages, crossed with role and compression: control frames on the wire are uncompressed and the peer reads every data message", ""),
    "C15": ("; Close frame sent by the data writer through the message API (WriteMessage / NextWriter / prepared), the writer continuing with every entry point incl. WritePreparedMessage after a failed call",
            "; after a Close sent through the message API every later call of every process fails with close-sent, without a panic, and nothing reaches the wire", ""),
    "C16": ("; JoseProd.tla: one Encrypter / Signer producing a sequence of objects with per-message header parameters (ProdRoundTrip / ProdOnlyRight / ProdIndependent; deviation producer-header-cached)",
            "; every producer configuration makes every sequence of 2-3 objects with SetCompression switched between them; each object, serialized at once and again later, opens only with a party's key and to its own payload",
            "; producers are not used concurrently"),
}

NOT_YET = "check not built yet in this revision of /verif (work in progress; see DESIGN.md section 5)"


def hook_commits():
    try:
        out = subprocess.run(["git", "-C", "/repo", "log", "--format=%H %s"], stdout=subprocess.PIPE, text=True).stdout
        return [l.split()[0] for l in out.splitlines() if "verif hook:" in l]
    except Exception:
        return []


def main():
    checks = []
    for pid in ALL:
        if pid not in CHECKS:
            continue
        level, tech, text, note, ref = CHECKS[pid]
        if pid in ADDENDA:
            tech, text, note = tech + ADDENDA[pid][0], text + ADDENDA[pid][1], note + ADDENDA[pid][2]
        if pid in ADDENDA4:
            tech, text, note = tech + ADDENDA4[pid][0], text + ADDENDA4[pid][1], note + ADDENDA4[pid][2]
        if pid in ADDENDA5:
            tech, text, note = tech + ADDENDA5[pid][0], text + ADDENDA5[pid][1], note + ADDENDA5[pid][2]
        checks.append({
            "property_id": pid,
            "quick_cmd": "./vcheck %s --tier quick" % pid,
            "thorough_cmd": "./vcheck %s --tier thorough" % pid,
            "evidence_file": "/verif/evidence/%s.json" % pid,
            "replay_cmd_template": "./vcheck %s --replay {path}" % pid,
            "engine": "vcheck",
            "level_claimed": {"category": level, "text": text, "design_ref": "DESIGN.md section " + ref},
            "level_note": note,
            "technique": tech,
        })
    m = {
        "version": 1,
        "setup_cmd": "./tools/setup.sh",
        "hooks": {
            "guard": "verif",
            "enable": "go build -tags verif (the harness module /verif/harness replaces github.com/ossrs/go-oryx-lib with /repo)",
            "baseline_off_cmd": "cd /repo && GOFLAGS=-mod=mod GOPROXY=off GOSUMDB=off GOTOOLCHAIN=local go test -vet=off -count=1 ./...",
            "source_commits": hook_commits(),
            "add_only": True,
        },
        "engines": [{
            "name": "vcheck", "path": "/verif/vcheck",
            "serves_properties": sorted(CHECKS),
            "kind_free_text": "python driver: TLC model checking of spec/<subsystem>/*.tla, TLC case/behaviour generation, Go replay into the real library (harness/), TLC trace validation of recorded executions",
        }, {
            "name": "vcheck-extras", "path": "/verif/vcheck",
            "serves_properties": [],
            "kind_free_text": "specifications grown beyond the listed properties, same pipeline, run as ./vcheck X01 (token-bucket rate limiter, spec/rate), ./vcheck X02 (context cancellation tree, spec/context), ./vcheck X03 (the library's RTMP writer validated chunk by chunk against RtmpChunk's reference receiver, spec/rtmp/Trace_RtmpWriter.tla), ./vcheck X04 (ACME client validated against spec/acme/Acme.tla), ./vcheck X05 (websocket session lifecycle and negotiation, spec/wslife/WsLife.tla); they are not properties of properties.jsonl and therefore not listed under checks",
        }],
        "checks": checks,
        "not_applicable": [{"property_id": p, "reason": NOT_YET} for p in ALL if p not in CHECKS],
        "notes": "Exit 2 from a check means the machinery failed (tool error, timeout); it is never a verdict. known_findings.json lists genuine defects (known / fixed).",
    }
    with open(os.path.join(VERIF, "MANIFEST.json"), "w") as f:
        json.dump(m, f, indent=1)
        f.write("\n")


if __name__ == "__main__":
    main()
